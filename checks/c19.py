"""C19 - the copy-on-write B-tree is a correct sorted map with isolated clones."""
import concurrent.futures as cf
import json
import os

from drivers import c19_btree
from vlib import c19cov, core, tlc

LEVEL = "model_checking"
META = {
    "text": "BTreeMap.tla is a reference model of dns.btree: every tree handle is a sorted map (plus frozen flag and t) "
            "that depends on its own history only, a cursor is a gap in key order, and WellFormed(shape, t) is a recursive "
            "predicate over a node tree. TLC checks the model's invariants and cursor laws exhaustively on a bounded "
            "universe, enumerates API scripts from Gen_BTreeMap (all call sequences of bounded length over chosen "
            "op/key sets from pre-built trees of height 1-3, with clones sharing structure and open cursors; plus "
            "seeded long simulations over 48 keys with grow/shrink phases and ascending/descending/random key order), "
            "and the driver replays each on BTreeDict and BTreeSet (t=3,4; in_order on/off; copy.copy and original=). "
            "After every call the driver logs, for every handle, the items, len, membership and node shape; "
            "Trace_BTreeMap requires each call to be the model's action with the model's return value, every handle "
            "(touched or not) to equal its model map, and every logged shape to satisfy WellFormed.",
    "note": "Exhaustive only inside the Gen/MC constants; long histories are seeded TLC simulations whose reach is "
            "measured (sys.settrace line/arc coverage of dns/btree.py under replay, reported in evidence). An unregistered "
            "cursor used across a mutation without park() is documented as undefined and is not exercised. "
            "Trusted: TLC, the Json module, the projection in drivers/c19_btree.py.",
    "technique": "TLA+ reference model + TLC exhaustive check; TLC-generated scripts replayed on the code; TLC trace validation",
    "design_ref": "DESIGN.md section 4, C19",
}

ALL_OPS = ["set", "del", "delx", "popmin", "clear", "freeze", "refreeze", "clone", "drop", "new", "get", "len", "iter",
           "extreme", "copen", "cclose", "seek", "seekend", "next", "prev", "park"]
CLASSES = [("dict", False), ("dict", True), ("set", False), ("set", True), ("ndict", False), ("ndict", True)]
NCL = len(CLASSES)

GEN_CFG = """INIT GInit
NEXT GNext
CONSTANTS
  Handles = {handles}
  Cursors = {cursors}
  Keys <- {keys}
  Vals = {vals}
  Ts = {ts}
  Sim = {sim}
  Ops = {ops}
  OpHandles = {ophandles}
  OpKeys {opkeys}
  OpVals = {opvals}
  InitTs = {initts}
  InitLoads <- {loads}
  InitShared = {shared}
  InitCursors <- {curs}
  MaxHist = {maxhist}
  SetForms = {setforms}
  DelForms = {delforms}
  GetForms = {getforms}
  IterForms = {iterforms}
  CloneForms = {cloneforms}
  Kinds = {kinds}
  Window = {window}
  MaxKey = {maxkey}
INVARIANT Emit
CHECK_DEADLOCK FALSE
"""


def tset(xs):
    return "{" + ", ".join(json.dumps(x) if isinstance(x, str) else ("TRUE" if x is True else "FALSE" if x is False else str(x))
                           for x in xs) + "}"


def gen_cfg(ctx, name, **kw):
    d = dict(handles=tset([1, 2, 3]), cursors=tset([1, 2]), keys="SimKeys", vals=tset([1, 2]), ts=tset([3, 4]),
             sim="FALSE", ops=tset([]), ophandles=tset([1, 2, 3]), opkeys="= {}", opvals=tset([2]), initts=tset([3]),
             loads="LoadNone", shared=tset([False]), curs="CursNone", maxhist=1, setforms=tset(["item"]),
             delforms=tset(["key"]), getforms=tset(["get"]), iterforms=tset(["keys"]), cloneforms=tset(["copy"]),
             kinds=tset(["reg"]), window=3, maxkey=6)
    d.update(kw)
    return ctx.cfg(name, GEN_CFG.format(**d))


ALL_FORMS = dict(setforms=tset(["item", "elt"]), delforms=tset(["item", "key", "discard", "pop"]),
                 getforms=tset(["item", "get", "in", "elt"]), iterforms=tset(["keys", "items", "visit"]),
                 cloneforms=tset(["copy", "orig"]), kinds=tset(["reg", "manual", "iter"]))


def exhaustive_plan(quick):
    """(name, classes per script, cfg keyword arguments).  Counts are measured and reported."""
    plan = []
    # E1: every call in every API spelling, from leaf-root and height-2 trees, with and without a
    #     structure-sharing clone, with a registered and a manual cursor open
    plan.append(("E1-every-call", 4, dict(ops=tset(ALL_OPS), maxkey=7, opkeys="= " + tset([1, 4, 7]), loads="LoadSmall",
                                           shared=tset([False, True]), curs="CursRegManual", maxhist=1, **ALL_FORMS)))
    # E2: all pairs of calls (one spelling each)
    plan.append(("E2-call-pairs", 1 if quick else 2,
                 dict(ops=tset(ALL_OPS), maxkey=7, opkeys="= " + tset([1, 4] if quick else [1, 4, 7]), loads="LoadH2one",
                      shared=tset([True]), curs="CursReg1", maxhist=2, kinds=tset(["reg", "manual"]))))
    # E3: copy-on-write: all sequences of set/del/freeze/clone/drop over three handles starting from a
    #     shared height-2 tree
    plan.append(("E3-cow-histories", 1,
                 dict(ops=tset(["set", "del", "freeze", "clone", "drop"]), maxkey=7,
                      opkeys="= " + tset([1, 4, 7] if quick else [1, 7]),
                      loads="LoadH2", shared=tset([True]), maxhist=3 if quick else 4)))
    # E4: cursors kept open across mutations: even keys loaded, odd keys are gaps
    plan.append(("E4-cursor-histories", 1 if quick else 2,
                 dict(ops=tset(["seek", "seekend", "next", "prev", "set", "del", "park"]), maxkey=13,
                      handles=tset([1]), ophandles=tset([1]), opkeys="= " + tset([1, 6, 7, 13] if quick else [1, 4, 6, 7, 13]),
                      loads="LoadEven", curs="CursRegManual", maxhist=3, kinds=tset(["reg", "manual"]))))
    if not quick:
        plan.append(("E4b-one-cursor-deeper", 1,
                     dict(ops=tset(["seek", "seekend", "next", "prev", "set", "del"]), maxkey=13,
                          handles=tset([1]), ophandles=tset([1]), opkeys="= " + tset([6, 7, 13]),
                          loads="LoadEven", curs="CursReg1", maxhist=4)))
    # E5: every sequence of deletions on a clone of a height-3 tree (t = 3): all steals, merges, root
    #     collapse, internal-key deletion; the frozen original is watched for isolation
    plan.append(("E5-tall-clone-deletes", 2 if quick else 1,
                 dict(ops=tset(["del"]), maxkey=26, handles=tset([1, 2]), ophandles=tset([2]), opkeys="<- SimKeys",
                      loads="LoadTall", shared=tset([True]), maxhist=2 if quick else 3)))
    # E6: deletions and insertions mixed
    plan.append(("E6-tall-clone-mixed", 1 if quick else 2,
                 dict(ops=tset(["del", "set"]), maxkey=27, handles=tset([1, 2]), ophandles=tset([2]),
                      opkeys="= " + tset([1, 6, 9, 10, 13, 20, 27] if quick else [1, 3, 6, 9, 10, 12, 13, 20, 27]),
                      loads="LoadTall", shared=tset([True]), maxhist=3, opvals=tset([2]))))
    if not quick:
        plan.append(("E6b-tall-clone-mixed-deeper", 1,
                     dict(ops=tset(["del", "set"]), maxkey=27, handles=tset([1, 2]), ophandles=tset([2]),
                          opkeys="= " + tset([1, 9, 10, 20, 27]), loads="LoadTall", shared=tset([True]), maxhist=4)))
    # E7: the same with t = 4 (33+ keys needed for height 3)
    plan.append(("E7-tall-t4", 2 if quick else 4,
                 dict(ops=tset(["del"]), maxkey=34, handles=tset([1, 2]), ophandles=tset([2]), opkeys="<- SimKeys",
                      loads="LoadTall4", initts=tset([4]), shared=tset([True]), maxhist=1 if quick else 2)))
    # E8: deletes of MISSING keys and failing delete_exact right where a merge at the root is possible
    #     (a root of one key over two leaves that are minimal or one delete away from it), on a COW clone
    plan.append(("E8-missing-key-deletes-at-root", 2 if quick else 1,
                 dict(ops=tset(["del", "delx"]), maxkey=7, handles=tset([1, 2]), ophandles=tset([2]), opkeys="<- SimKeys",
                      loads="LoadRootMerge", shared=tset([True]), maxhist=2 if quick else 3,
                      delforms=tset(["item", "key", "discard"] if quick else ["key", "discard"]))))
    plan.append(("E8b-missing-key-deletes-at-root-t4", 2 if quick else 6,
                 dict(ops=tset(["del", "delx"]), maxkey=9, handles=tset([1, 2]), ophandles=tset([2]), opkeys="<- SimKeys",
                      loads="LoadRootMerge4", initts=tset([4]), shared=tset([True]), maxhist=2,
                      delforms=tset(["key", "discard"]))))
    return plan


REBALANCE_FUNCS = {"insert_nonfull", "split", "delete", "balance", "try_left_steal", "try_right_steal", "merge",
                   "maybe_cow", "maybe_cow_child", "optimize_in_order_insertion", "adopt", "insert_element", "_delete",
                   "_get_node", "clone", "search_in_node", "minimum", "maximum",
                   "seek", "next", "prev", "_seek_least", "_seek_greatest", "park", "_maybe_unpark",
                   "_adjust_for_before", "seek_first", "seek_last", "_check_mutable_and_park", "make_immutable"}


def coverage_analysis():
    fn = c19_btree.B.__file__
    src = open(fn).read().splitlines()
    # defensive path that a correct tree can never take: _get_node() is only called for a key
    # that is in the subtree, so the "leaf reached without a match" return is dead by design
    unreachable = [i + 1 for i, s in enumerate(src) if s.strip() == "return (None, 0)"]
    # _visit_preorder_by_node: "This method is only used for testing" (its docstring)
    return c19cov.Analysis(fn, exclude_funcs=("_visit_preorder_by_node",), unreachable_lines=unreachable)


def _resolved_obs(ev, i, h):
    """Full observation of handle h at event index i (0-based), following a {"ref": j}."""
    if i < 0 or i >= len(ev) or "obs" not in ev[i]:
        return None
    o = ev[i]["obs"][h - 1]
    if o.get("ref"):
        o = ev[o["ref"] - 1]["obs"][h - 1]
    return o


def classify(tr, line, clause):
    """Case signature of a rejected trace (matched against known_findings.json)."""
    ev = tr["ev"]
    e = ev[line - 1] if line and 0 < line <= len(ev) else {}
    if not e and ev and ev[-1].get("op") == "driver-error":
        d = ev[-1]
        return "NoReturn:%s:%s:%s:%s" % (d.get("exc"), d.get("during", {}).get("op", "?"), d.get("during", {}).get("form", "-"), tr.get("cls"))
    # F35 (fixed in /repo 7f4dc0b): a delete that removes NOTHING (missing key, or delete_exact with an
    # element that is not the stored one) leaves an internal root with 0 keys over its single merged child.
    # Specific: this very event is such a delete, its handle's content did not change, and the ONLY defect
    # of the logged shape is the empty internal root (the child below is a well-formed root of its own).
    if clause == "WellFormed" and e.get("op") in ("del", "delx"):
        h = e["h"]
        now = _resolved_obs(ev, line - 1, h)
        before = _resolved_obs(ev, line - 2, h)
        if now and before and now.get("live") and before.get("live"):
            removed_nothing = now["keys"] == before["keys"] and (
                (e["op"] == "del" and e["k"] not in before["keys"]) or
                (e["op"] == "delx" and (not e["same"] or e["k"] not in before["keys"])))
            sh = now["shape"]
            empty_internal_root = len(sh[0]) == 0 and len(sh[1]) == 1
            if removed_nothing and empty_internal_root and _flat(sh[1][0]) == now["keys"]:
                return "F35:internal-root-left-empty-after-delete-of-missing-key"
    return "%s:%s:%s:%s:%s" % (clause, e.get("op", "?"), e.get("form", e.get("kind", "-")), tr.get("cls"), e.get("exc", ""))


def _flat(n):
    if not n[1]:
        return list(n[0])
    out = []
    for i, c in enumerate(n[1]):
        out += _flat(c)
        if i < len(n[0]):
            out.append(n[0][i])
    return out


def shape_stats(traces, stats):
    """Measured reach of the replayed histories (statistics of what was logged, no verdicts)."""
    def height(n):
        h = 1
        while n[1]:
            n = n[1][0]
            h += 1
        return h
    for tr in traces:
        for e in tr["ev"]:
            for o in e.get("obs", ()):
                if o.get("ref") == 0 and o.get("live"):
                    sh = o["shape"]
                    h = height(sh)
                    stats["max_height"] = max(stats.get("max_height", 0), h)
                    stats["max_keys"] = max(stats.get("max_keys", 0), len(o["keys"]))
                    stats["full_observations"] = stats.get("full_observations", 0) + 1
                    if sh[1] and not sh[0]:
                        stats["keyless_root_over_one_child"] = stats.get("keyless_root_over_one_child", 0) + 1
                    stats.setdefault("height_hist", {})
                    stats["height_hist"][str(h)] = stats["height_hist"].get(str(h), 0) + 1


def tlc_many(ctx, runs, par=8):
    """Run several TLC jobs concurrently.  runs: list of (label, module, cfg, kwargs, is_generator).
    Accounting is done serially afterwards (same bookkeeping as Ctx.model / Ctx.generate)."""
    def one(r):
        label, module, cfg, kw, isgen = r
        kw = dict(kw)
        kw.setdefault("workers", 1 if isgen else 6)
        return tlc.run(module, cfg, os.path.join(ctx.work, "tlc_" + label), **kw)
    with cf.ThreadPoolExecutor(max_workers=par) as ex:
        results = list(ex.map(one, runs))
    out = {}
    for (label, module, cfg, kw, isgen), r in zip(runs, results):
        tlc.must_pass(r, "TLC %s/%s" % (module, os.path.basename(cfg)))
        ctx.states += r.distinct
        ctx.transitions += r.generated
        ctx.model_runs.append({"label": label, "module": module, "cfg": os.path.basename(cfg), "distinct_states": r.distinct,
                               "states_generated": r.generated, "depth": r.depth, "wall_s": round(r.wall, 1),
                               "violated": r.violated, "behaviours": len(r.prints.get("BEH", []))})
        if isgen:
            beh = r.prints.get("BEH", [])
            if not beh:
                raise core.Machinery("generator %s produced no behaviours\n%s" % (label, r.out[-2000:]))
            out[label] = beh
            ctx.log("TLC %s: %d behaviours (%d states, %.1fs)" % (label, len(beh), r.distinct, r.wall))
        else:
            ctx.log("TLC %s: %d distinct / %d generated states, depth %d, %.1fs" % (label, r.distinct, r.generated, r.depth, r.wall))
    return out


def sim_runs(ctx, n_total, seed0, tag, parts=8):
    """`parts` TLC -simulate processes (each -workers 1 with its own seed) giving n_total scripts."""
    per = max(1, n_total // parts)
    cfg = gen_cfg(ctx, "sim.cfg", sim="TRUE", vals=tset([1, 2, 3]), opvals=tset([1, 2, 3]), initts=tset([3, 4]),
                  loads="SimLoads", shared=tset([False, True]), maxhist=150, maxkey=48, **ALL_FORMS)
    return [("%s.%d" % (tag, i), "Gen_BTreeMap", cfg,
             dict(simulate="num=%d" % per, depth=400, seed=seed0 * 1000 + i + 1, deadlock=False, heap="2g"), True)
            for i in range(parts)]


def run(ctx):
    quick = ctx.tier == "quick"
    ctx.rule = ("behaviours = scripts of dns.btree API calls emitted by TLC from Gen_BTreeMap (exhaustive plans E1-E7 + seeded "
                "-simulate runs of 150 calls over 48 keys); each replayed on BTreeDict/BTreeSet x in_order on/off; distinct = "
                "distinct (script, class, in_order); non-trivial = the script contains at least one successful mutation "
                "after the prefix")
    ctx.assumptions += ["TLC and CommunityModules Json are correct",
                        "driver projection (drivers/c19_btree.py: iteration, len, membership, raw node shape) is faithful",
                        "exhaustive only inside the constants of the MC/Gen configs; beyond them seeded simulation",
                        "an unregistered cursor is parked by the program before a mutation (documented protocol)"]
    ana = coverage_analysis()
    arcs = set()
    stats = {}
    jobmap = {}
    all_rejects = []
    n_traces = 0

    def replay(jobs):
        """Run the scripts on the real code; returns the traces (coverage arcs stripped off)."""
        for j in jobs:
            jobmap[j[3]] = j
        traces = ctx.pmap(c19_btree.run_job, jobs)
        for tr in traces:
            for a in tr.pop("cov", ()):
                arcs.add(tuple(a))
        shape_stats(traces, stats)
        for tr in traces:
            if any(e.get("res") == "ok" and e["op"] in ("set", "del", "delx", "popmin", "clear", "load") for e in tr["ev"][2:]):
                ctx.distinct.add(tr["tid"])
        return traces

    def sample(tr):
        ctx.sample({"tid": tr["tid"], "cls": tr["cls"], "in_order": tr["in_order"],
                    "ev": [{k: v for k, v in e.items() if k != "obs"} for e in tr["ev"][:10]],
                    "last_obs": tr["ev"][-1].get("obs")}, cap=8)

    def validate(traces, label):
        nonlocal n_traces
        n_traces += len(traces)
        rej = ctx.validate("Trace_BTreeMap", "Trace_BTreeMap.cfg", traces)
        ctx.log("%s: %d traces, %d rejected" % (label, len(traces), len(rej)))
        all_rejects.extend(rej)

    if ctx.replay_case:
        case = ctx.replay_case["case"]
        validate(replay([(case["script"], case["cls"], case["in_order"], "replay", True)]), "replay")
    else:
        batch = 1600 if quick else 5000
        max_batches = 1 if quick else 5
        plan = exhaustive_plan(quick)
        runs = []
        mc_cfg = os.path.join(tlc.SPECS, "MC_BTreeMap_quick.cfg" if quick else "MC_BTreeMap_thorough.cfg")
        run_mc = True
        # development knob for mutation testing (never set by the registered commands): run only the
        # named parts, e.g. C19_ONLY=E3,E5,S  C19_SIMS=400.  A mutant rejected by a part is rejected by
        # the whole tier, which validates a superset of these traces.
        only = [x for x in os.environ.get("C19_ONLY", "").split(",") if x]
        if only:
            ctx.extra["restricted_to"] = only
            plan = [p for p in plan if p[0].split("-")[0] in only]
            run_mc = "MC" in only
            batch = int(os.environ.get("C19_SIMS", batch)) if "S" in only else 0
        runs += [(name, "Gen_BTreeMap", gen_cfg(ctx, name + ".cfg", **kw), {}, True) for name, ncls, kw in plan]
        if batch:
            runs += sim_runs(ctx, batch, ctx.seed * 50 + 1, "S0")
        # the exhaustive check of the model itself runs beside generation / replay / validation
        mc_pool = cf.ThreadPoolExecutor(max_workers=1)
        mc_future = mc_pool.submit(tlc.run, "MC_BTreeMap", mc_cfg, os.path.join(ctx.work, "mc"),
                                   workers=4 if quick else 10) if run_mc else None
        gen = tlc_many(ctx, runs)
        plan_counts = {}
        pending = []
        for name, ncls, kw in plan:
            scripts = gen[name]
            jobs = []
            for i, s in enumerate(scripts):
                picks = list(range(NCL)) if ncls >= 4 else [i % NCL, (i + 1 + (i // NCL) % (NCL - 1)) % NCL][:ncls]
                for c in picks:
                    cls, ino = CLASSES[c]
                    jobs.append((s, cls, ino, "%s.%d.%s.%s" % (name.split("-")[0], i, cls, "io" if ino else "no"), True))
            traces = replay(jobs)
            plan_counts[name] = {"scripts": len(scripts), "traces": len(traces)}
            sample(traces[len(traces) // 2])
            pending += traces
            if len(pending) > 150000:
                validate(pending, "exhaustive plans up to " + name)
                pending = []
        ctx.extra["exhaustive_plan_scripts"] = plan_counts
        # simulations: quick = one batch; thorough = batches until every line and both outcomes of every
        # branch of the rebalancing / copy-on-write / cursor functions were executed, or the budget is spent
        nsim = 0
        b = -1
        for b in range(max_batches if batch else 0):
            if b > 0:
                gen = tlc_many(ctx, sim_runs(ctx, batch, ctx.seed * 50 + b + 1, "S%d" % b))
            scripts = [s for k in sorted(gen) if k.startswith("S%d." % b) for s in gen[k]]
            nsim += len(scripts)
            jobs = []
            for i, s in enumerate(scripts):
                cls, ino = CLASSES[(i + b) % NCL]
                jobs.append((s, cls, ino, "S%d.%d.%s.%s" % (b, i, cls, "io" if ino else "no"), True))
            traces = replay(jobs)
            sample(traces[0])
            validate(pending + traces, "exhaustive plans + simulation batch %d" % b if pending else "simulation batch %d" % b)
            pending = []
            rep = ana.report(arcs, REBALANCE_FUNCS)
            ctx.log("coverage after batch %d: lines %d/%d, branches both ways %d/%d" % (
                b, rep["lines_hit"], rep["lines_total"], rep["branches_both_ways"], rep["branches_total"]))
            if b >= 1 and not rep["lines_missed"] and not rep["branches_one_way"]:
                break
        if pending:
            validate(pending, "exhaustive plans")
        if mc_future is not None:
            r = mc_future.result()
            tlc.must_pass(r, "model check MC_BTreeMap/%s" % os.path.basename(mc_cfg))
            ctx.states += r.distinct
            ctx.transitions += r.generated
            ctx.model_runs.append({"label": "MC_BTreeMap", "module": "MC_BTreeMap", "cfg": os.path.basename(mc_cfg),
                                   "distinct_states": r.distinct, "states_generated": r.generated, "depth": r.depth,
                                   "wall_s": round(r.wall, 1), "violated": r.violated, "behaviours": 0})
            ctx.log("TLC MC_BTreeMap/%s: %d distinct / %d generated states, depth %d, %.1fs" % (
                os.path.basename(mc_cfg), r.distinct, r.generated, r.depth, r.wall))
        ctx.extra["simulated_scripts"] = nsim
        ctx.extra["simulation_batches"] = b + 1
    ctx.evaluations = n_traces
    ctx.extra["btree_py_coverage_all"] = ana.report(arcs)
    ctx.extra["btree_py_coverage_rebalancing_and_cursor"] = ana.report(arcs, REBALANCE_FUNCS)
    ctx.extra["reach"] = stats
    ctx.extra["keyless_internal_roots_logged"] = stats.get("keyless_root_over_one_child", 0)
    for tr, line, clause in all_rejects:
        sig = classify(tr, line, clause)
        e = tr["ev"][line - 1] if line else {}
        job = jobmap.get(tr["tid"])
        slim = {k: v for k, v in e.items() if k != "obs"}
        ctx.violation(clause, sig, "class=%s in_order=%s event %s: %s" % (tr.get("cls"), tr.get("in_order"), line, json.dumps(slim)[:300]),
                      {"script": job[0] if job else None, "cls": tr.get("cls"), "in_order": tr.get("in_order"), "line": line,
                       "event": e, "tid": tr["tid"]})


def selftest(ctx):
    """Corrupt one logged field of a good trace at a time and require Trace_BTreeMap to reject it
    (with the clause that field belongs to).  Prints no VIOLATION lines.  On-disk mutants of
    dns/btree.py are run separately in scratch worktrees (see notes/C19.md)."""
    import copy as _copy
    script = [{"op": "new", "h": 1, "t": 3}, {"op": "load", "h": 1, "ks": list(range(1, 21)), "v": 1},
              {"op": "freeze", "h": 1}, {"op": "clone", "src": 1, "dst": 2, "form": "copy"},
              {"op": "copen", "c": 1, "h": 2, "kind": "reg"}, {"op": "seek", "c": 1, "k": 7, "before": True},
              {"op": "del", "h": 2, "k": 8, "form": "key"}, {"op": "next", "c": 1}, {"op": "next", "c": 1},
              {"op": "set", "h": 2, "k": 8, "v": 2, "form": "elt"}, {"op": "prev", "c": 1},
              {"op": "len", "h": 2}, {"op": "set", "h": 1, "k": 30, "v": 2, "form": "item"},
              {"op": "iter", "h": 1, "form": "keys"}]
    good = c19_btree.replay(script, "dict", False, "good")
    cases = []

    def corrupt(name, expect, fn):
        tr = _copy.deepcopy(good)
        tr["tid"] = name
        fn(tr["ev"])
        cases.append((name, expect, tr))

    def full_obs(ev, i, h):
        o = ev[i]["obs"][h - 1]
        if o["ref"]:
            o = _copy.deepcopy(ev[o["ref"] - 1]["obs"][h - 1])
            ev[i]["obs"][h - 1] = o
        return o

    corrupt("untouched-handle-loses-a-key", "Isolation", lambda ev: full_obs(ev, 6, 1)["keys"].remove(8) or full_obs(ev, 6, 1)["vals"].pop())
    corrupt("touched-handle-keeps-deleted-key", "Content", lambda ev: (full_obs(ev, 6, 2)["keys"].insert(7, 8), full_obs(ev, 6, 2)["vals"].append(1)))
    corrupt("len-off-by-one", "Len", lambda ev: full_obs(ev, 6, 2).__setitem__("len", 20))
    corrupt("membership-wrong", "Lookup", lambda ev: full_obs(ev, 6, 2)["mem"].append(8))
    corrupt("leaf-underfull", "WellFormed", lambda ev: full_obs(ev, 6, 2)["shape"][1][0][0].pop())
    corrupt("value-wrong", "Content", lambda ev: full_obs(ev, 9, 2)["vals"].__setitem__(7, 1))
    corrupt("cursor-skips", "CursorValue", lambda ev: ev[7].__setitem__("val", ["elt", 9, 1]))
    corrupt("cursor-repeats", "CursorValue", lambda ev: ev[8].__setitem__("val", ["elt", 7, 1]))
    corrupt("prev-wrong", "CursorValue", lambda ev: ev[10].__setitem__("val", ["elt", 10, 1]))
    corrupt("frozen-accepts-write", "FrozenRejects", lambda ev: ev[12].__setitem__("res", "ok"))
    corrupt("delete-returns-wrong-element", "Value", lambda ev: ev[6].__setitem__("val", ["val", 2]))
    corrupt("len-call-wrong", "Value", lambda ev: ev[11].__setitem__("val", ["int", 19]))
    corrupt("iteration-out-of-order", "Value", lambda ev: ev[13]["val"][1].reverse())
    traces = [good] + [c[2] for c in cases]
    rejects = {tr["tid"]: clause for tr, line, clause in ctx.validate("Trace_BTreeMap", "Trace_BTreeMap.cfg", traces)}
    ok = "good" not in rejects
    matrix = {"good-trace-accepted": ok}
    for name, expect, _tr in cases:
        got = rejects.get(name)
        matrix[name] = {"expected_clause": expect, "rejected_with": got}
        ok = ok and got == expect
        print("selftest %-34s expected %-14s got %s" % (name, expect, got))
    with open(os.path.join(core.ROOT, "evidence", "C19.selftest.json"), "w") as f:
        json.dump({"property_id": "C19", "corrupted_fields": matrix, "all_rejected_as_expected": ok}, f, indent=1)
    print("selftest C19: %s" % ("ok" if ok else "FAILED"))
    return 0 if ok else 2
