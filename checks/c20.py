"""C20 - B-tree zone flags, delegation index, iteration order and bounds() are a function of
the zone content."""
import json

from drivers import c20_btreezone as D

LEVEL = "model_checking"
META = {
    "text": "BTZDerived.tla defines the derived state of a zone from its content alone (ORIGIN / DELEGATION / GLUE flags, "
            "delegation index = top-most non-apex NS owners, canonical iteration order per RFC 4034 6.1 on label sequences, "
            "bounds(q): nearest non-occluded neighbours, closest encloser counting empty non-terminals, is_equal, "
            "is_delegation). TLC checks the laws of these definitions (cuts are an antichain, flags exclude one another, "
            "left <= q < right adjacent among non-occluded names, encloser is the longest existing ancestor, neighbour lemma) "
            "for EVERY content shape over the name universe and over bounded transaction histories. TLC then enumerates zone "
            "histories from Gen_BTreeZone (initial load in every record order, all sequences of put/delete-rdataset/"
            "delete-node operations split into transactions in every way, seeded long simulations with add/delete-rdata, "
            "rollbacks and reloads); each is replayed on dns.btreezone.Zone (relativized and absolute, both name spellings; "
            "zone created with its origin, or without one and loaded by dns.zone.from_text from text with $ORIGIN; "
            "B-trees with the default branching factor and with t = 3 and 4 so that node splits, merges, steals and "
            "multi-level copy-on-write occur) "
            "and after every commit Trace_BTreeZone recomputes flags, index, order and every bounds() field from the logged "
            "content and compares them with what the implementation maintained incrementally.",
    "note": "Exhaustive only inside the constants of the MC/Gen configurations (8-10 owner names incl. a chain of up to four "
            "nested cuts, 21-23 query names, <=2-3 operations in <=3 transactions from 2-5 initial zones); longer histories are "
            "seeded TLC simulations. Trusted: TLC, the Json module, the ~60-line projection in drivers/c20_btreezone.py.",
    "technique": "TLA+ definition of the derived state + TLC exhaustive check of its laws; TLC-generated histories replayed on "
                 "the code; TLC trace validation (incremental = recomputed)",
    "design_ref": "DESIGN.md section 4, C20",
}

GEN_CFG = """INIT GInit
NEXT GNext
CONSTANTS
  Names <- {names}
  Queries <- UQueries
  OpTypes = {optypes}
  RdIds = {rdids}
  LoadSets = {{}}
  MaxOps = 0
  MaxTxns = 0
  NameLessC <- TabLess
  LoadPrefix <- {prefix}
  LoadRecs <- {recs}
  LoadLens = {lens}
  FixedLoads <- {fixed}
  OpKinds = {kinds}
  Plans <- {plans}
  Ends = {ends}
INVARIANT Emit
INVARIANT EmitTable
CHECK_DEADLOCK FALSE
"""


def tset(xs):
    return "{" + ", ".join(json.dumps(x) if isinstance(x, str) else str(x) for x in xs) + "}"


def gen_cfg(ctx, name, **kw):
    d = dict(names="UNames", optypes=tset(["NS", "A"]), rdids=tset([1]), prefix="Std", recs="NoRecs", lens=tset([0]),
             fixed="NoLoads", kinds=tset(["put", "delrds", "delnode"]), plans="P_0", ends=tset(["commit"]))
    d.update(kw)
    return ctx.cfg(name, GEN_CFG.format(**d))


def generate(ctx, name, sim=None, **kw):
    cfg = gen_cfg(ctx, name, **kw)
    if sim:
        r = ctx.model("Gen_BTreeZone", cfg, workers=1, simulate="num=%d" % sim[0], depth=sim[1], seed=sim[2], deadlock=False)
    else:
        r = ctx.model("Gen_BTreeZone", cfg, workers=1)
    beh = r.prints.get("BEH", [])
    ctx.log("generated %d histories from %s" % (len(beh), name))
    if not beh or "TAB" not in r.prints:
        raise ctx_machinery("generator %s produced no histories\n%s" % (name, r.out[-1500:]))
    return r, beh


def ctx_machinery(msg):
    from vlib import core
    return core.Machinery(msg)


# ------------------------------------------------------------------------------ classification
def _labels(i):
    return D.TABLE.labels[i - 1] if i and 0 < i <= len(D.TABLE.labels) else None


def _below(i, j):
    """name i strictly below name j"""
    a, b = _labels(i), _labels(j)
    return a is not None and b is not None and len(a) > len(b) and a[len(a) - len(b):] == b


def _at_or_below(i, j):
    return i == j or _below(i, j)


APEX = 1  # the table is sorted canonically: the apex (no labels) is first

SIG_F34 = "F34:apex-flagged-delegation-when-origin-learned-in-first-transaction"
SIG_F43 = "F43:cname-stored-at-delegation-evicts-NS-but-delegation-state-kept"
SIG_A = "F12a:non-NS-write-at-delegation-drops-flag"
SIG_A2 = "F12a:delete-node-after-dropped-flag-leaves-stale-delegation"
SIG_B_KEPT = "F12b:nested-cuts:inner-cut-kept-in-index"
SIG_B_PROMO = "F12b:nested-cuts:inner-cut-not-promoted-when-outer-removed"
SIG_B_LOOKUP = "F12b:nested-cuts:lookups-confused-beneath-outer-cut"
SIG_C = "F12c:bounds-left-is-occluded-glue-name"
SIG_D = "F12d:relativized-closest-encloser-is-query-name-when-no-common-label"


def explain(tr, items):
    """Map every mismatch item of a rejected trace to the known defect whose exact pattern it
    shows, or to None.  Only describes the failing case (for the signature); the verdict
    was TLC's."""
    ev = tr["ev"]
    rel = tr["rel"]
    out = []
    cache = {}

    def context(line):
        if line in cache:
            return cache[line]
        start = 0
        for k in range(line):
            if ev[k]["op"] == "load":
                start = k
        ever_ns, dropped, deleted = set(), set(), set()
        cname_over, pend_cn, txn_ns = set(), set(), set()  # F43: a CNAME stored at a name that was a delegation
        cur_delegs, prev_delegs, pend_drop, pend_del = [], [], set(), set()
        nested_seen = False
        for k in range(start, line):
            e = ev[k]
            op = e["op"]
            if op == "load":
                ever_ns |= {r[0] for r in e["recs"] if r[1] == "NS"}
                seen_ns = set()
                for r in e["recs"]:
                    if r[1] == "NS":
                        seen_ns.add(r[0])
                    elif r[1] == "CNAME" and r[0] in seen_ns:
                        cname_over.add(r[0])
            elif op == "begin":
                prev_delegs, pend_drop, pend_del = list(cur_delegs), set(), set()
                pend_cn, txn_ns = set(), set()
            elif op in ("put", "add") and e["type"] == "NS":
                ever_ns.add(e["name"])
            if op in ("put", "add", "delrd", "delrds") and e["type"] != "NS" and e["name"] in prev_delegs:
                pend_drop.add(e["name"])
            if op == "delnode" and (e["name"] in pend_drop or e["name"] in dropped):
                pend_del.add(e["name"])
            if op in ("put", "add") and e["type"] == "NS":
                txn_ns.add(e["name"])
            if op in ("put", "add") and e["type"] == "CNAME" and (e["name"] in prev_delegs or e["name"] in txn_ns
                                                                     or e["name"] in ever_ns):
                pend_cn.add(e["name"])
            if op == "end" and e["how"] == "commit":
                cname_over |= pend_cn
                dropped |= pend_drop
                deleted |= pend_del
            if "obs" in e:
                cur_delegs = e["obs"]["delegs"]
                # the index has really been observed holding an entry beneath another entry
                nested_seen = nested_seen or any(_below(a, b) for a in cur_delegs for b in cur_delegs)
        outer = {m for m in ever_ns if m != APEX and any(_below(n, m) for n in ever_ns)}
        cache[line] = (ever_ns, dropped, deleted, outer, nested_seen, cname_over)
        return cache[line]

    # F34: zone created without an origin (not relativized), origin learned in the first transaction,
    # and the apex came out of that load without the ORIGIN flag
    first = ev[0] if ev else {}
    no_origin_flag = (tr.get("mk") == "learn" and not rel and first.get("op") == "load" and "obs" in first
                      and not dict((f[0], f[1]) for f in first["obs"]["flags"]).get(APEX, 0) & 1)
    # delegation-index entries that are stale because the node was deleted after its flag was dropped
    stale = {}
    stale_cn = {}  # index entries left behind by a CNAME that evicted the NS rdataset (F43)
    missing = {}
    for it in items:
        if it[1] == "deleg-extra" and it[2] in context(it[0])[2]:
            stale.setdefault(it[0], set()).add(it[2])
        if it[1] == "deleg-extra" and it[2] in context(it[0])[5]:
            stale_cn.setdefault(it[0], set()).add(it[2])
        if it[1] == "deleg-missing" or (it[1] == "flag" and it[3] & 2 and not it[4] & 2):
            missing.setdefault(it[0], set()).add(it[2])  # should be a delegation and is not (fully)
    for it in items:
        line, kind = it[0], it[1]
        obs = ev[line - 1]["obs"]
        ever_ns, dropped, deleted, outer, nested_seen, cname_over = context(line)
        oflags = dict((f[0], f[1]) for f in obs["flags"])
        odel = set(obs["delegs"])
        names = [x for x in it[2:] if isinstance(x, int)] if kind in ("left", "right", "encloser") else [it[2]]
        names = [x for x in names if x and x > 0]
        why = None
        if no_origin_flag and not any(ev[k]["op"] == "load" for k in range(1, line)):
            # everything derived from "is this the origin?" went wrong in the first transaction
            # (and stays wrong until the zone is reloaded)
            why = SIG_F34
        elif any(_at_or_below(x, n) for n in stale_cn.get(line, ()) for x in names):
            why = SIG_F43
        elif kind == "encloser" and rel and it[4] == it[2] and it[3] == APEX and it[2] != APEX:
            why = SIG_D
        elif (kind == "left" and it[4] > 0 and oflags.get(it[4], 0) & 4 and it[3] in odel and _below(it[4], it[3])
              and not _at_or_below(it[2], it[3])):
            why = SIG_C
        elif kind == "flag" and it[2] in dropped and it[3] == 2 and it[4] == 0 and it[2] in odel:
            why = SIG_A
        elif any(_at_or_below(x, n) for n in stale.get(line, ()) for x in names):
            why = SIG_A2
        elif any(_at_or_below(x, m) for m in outer for x in names):
            if (kind == "flag" and it[4] & 2 and not it[3] & 2) or kind == "deleg-extra":
                why = SIG_B_KEPT  # an NS owner beneath a cut is still flagged / indexed as a delegation
            elif ((kind == "flag" and it[3] & 2 and not it[4] & 2) or kind == "deleg-missing"
                  or any(_at_or_below(x, n) for n in missing.get(line, ()) for x in names)):
                why = SIG_B_PROMO  # an NS owner exposed by the removal of the outer cut is not a delegation
            elif nested_seen:
                why = SIG_B_LOOKUP  # the index held nested entries (now or earlier since the load)
        out.append(why)
    return out


KIND_CLAUSE = {"nodes": "Order", "order": "Order", "flag": "Flags", "deleg-missing": "DelegationIndex",
               "deleg-extra": "DelegationIndex", "deleg-order": "DelegationIndex", "bounds-exc": "BoundsNoException",
               "left": "BoundsLeft", "right": "BoundsRight", "encloser": "BoundsClosestEncloser",
               "is_equal": "BoundsIsEqual", "is_delegation": "BoundsIsDelegation"}
PRIORITY = [SIG_F34, SIG_F43, SIG_A, SIG_A2, SIG_B_KEPT, SIG_B_PROMO, SIG_B_LOOKUP, SIG_C, SIG_D]


def classify(tr, line, clause):
    """(clause id, case signature, description) of a rejected trace.  A known-defect signature is given
    only if EVERY mismatch of the trace shows the exact pattern of a known defect."""
    cfgs = "%s:%s%s" % ("rel" if tr.get("rel") else "abs", tr.get("sp"), (":learn" if tr.get("mk") == "learn" else "") + (":t%d" % tr["bt"] if tr.get("bt") else ""))
    if not isinstance(clause, list):
        e = tr["ev"][line - 1] if line and 0 < line <= len(tr["ev"]) else {}
        return str(clause), "%s:%s:%s:%s" % (clause, e.get("op", "?"), cfgs, e.get("exc", "")), json.dumps(e)[:300]
    why = explain(tr, clause)
    unexplained = [it for it, w in zip(clause, why) if w is None]
    if unexplained:
        it = unexplained[0]
        txn = [e["op"] + ("/" + e["type"] if e.get("type") not in (None, "-") else "")
               for e in tr["ev"][:it[0]] if e["op"] not in ("begin", "end")]
        last = tr["ev"][it[0] - 1]["op"]
        sig = "%s:%s:%s:after-%s:%s" % (KIND_CLAUSE.get(it[1], it[1]), it[1], cfgs, last, ",".join(txn[-3:]))
        return KIND_CLAUSE.get(it[1], it[1]), sig, "event %d: %s (expected, observed) = %s; %d mismatches, %d unexplained" % (
            it[0], it[1], it[2:], len(clause), len(unexplained))
    sig = min(set(why), key=PRIORITY.index)
    it = clause[why.index(sig)]
    return KIND_CLAUSE.get(it[1], it[1]), sig, "event %d: %s %s" % (it[0], it[1], it[2:])


def strip(tr):
    return [{k: v for k, v in e.items() if k not in ("res", "exc", "obs")} for e in tr["ev"]]


# ------------------------------------------------------------------------------ the check
def run(ctx):
    quick = ctx.tier == "quick"
    ctx.rule = ("behaviours = zone histories enumerated by TLC from Gen_BTreeZone (every record order of several 5-record loads; "
                "every sequence of <=2 (quick) / <=3 (thorough) put / delete-rdataset / delete-node operations from fixed initial "
                "zones, split into transactions in every way; seeded -simulate histories with add/delete-rdata, rollbacks, "
                "reloads); each replayed on dns.btreezone.Zone relativized and absolute; evaluations = commits judged x query "
                "names; distinct = distinct (history, zone configuration) with at least one update operation or a permuted load")
    ctx.assumptions += ["TLC and CommunityModules Json are correct", "driver projection (drivers/c20_btreezone.py) is faithful",
                        "exhaustive only inside the constants of the MC/Gen configs; beyond them seeded simulation",
                        "the zone always keeps its apex SOA (no history deletes the apex node)"]
    if ctx.replay_case:
        case = ctx.replay_case["case"]
        r, _ = generate(ctx, "tab.cfg", fixed="FixedOne")
        D.setup(r.prints["TAB"][0], {"U": r.prints["QRYU"][0], "W": r.prints["QRYW"][0]})
        traces = [D.replay(case["hist"], case["qset"], case["rel"], case["sp"], "replay", case.get("mk", "origin"),
                           case.get("bt", 0))]
        jobs = []
    else:
        # ---- the definitions: laws for every content shape, and over bounded histories
        ctx.model("MC_BTreeZone", "MC_BTreeZone_shapes_quick.cfg" if quick else "MC_BTreeZone_shapes_thorough.cfg")
        ctx.model("MC_BTreeZone", "MC_BTreeZone_quick.cfg" if quick else "MC_BTreeZone_thorough.cfg")
        hists = []  # (history, qset, tag)
        table = None

        def add(tag, qset="U", **kw):
            nonlocal table
            r, beh = generate(ctx, tag + ".cfg", **kw)
            table = table or (r.prints["TAB"][0], {"U": r.prints["QRYU"][0], "W": r.prints["QRYW"][0]})
            hists.extend((h, qset, tag) for h in beh)

        # G1: initial load in every record order (nested cuts, deep chains, several rdatasets per node,
        #     apex records anywhere)
        for tag, recs in (("g1nest", "NestRecs"), ("g1deep", "DeepRecs"), ("g1mix", "MixRecs")):
            add(tag, recs=recs, lens=tset([5]))
        add("g1apex", recs="ApexRecs", lens=tset([5]), prefix="NoPrefix")
        # a CNAME and other data at the same owners: the load order decides which survives (CNAME
        # exclusivity of a node), so the same five records give zones with and without a cut at d
        add("g1cname", recs="CnameRecs", lens=tset([5]))
        if not quick:
            add("g1cname2", recs="CnameRecs2", lens=tset([5]))
        if not quick:
            add("g1chain", recs="ChainRecs", lens=tset([5]))
        # G2: every sequence of <= 2 operations, in one or two transactions
        #     (thorough: also from the apex-only zone, which LoadLens = {0} adds)
        add("g2", fixed="FixedNested" if quick else "FixedAll", plans="P_2", names="CoreNames" if quick else "UNames",
            lens=tset([]) if quick else tset([0]))
        # G2n: the same with NS and CNAME stored / deleted at, above and below cuts (a CNAME stored at a
        #      delegation point evicts its NS; NS or A stored at a CNAME owner evicts the CNAME)
        add("g2n", fixed="FixedCname", plans="P_2", names="NoApexCore" if quick else "UNames", lens=tset([]),
            optypes=tset(["NS", "CNAME"]) if quick else tset(["NS", "A", "CNAME"]), kinds=tset(["put", "delrds"]))
        if not quick:
            # G2b: every sequence of 3 operations, each in its own transaction, nested zones
            add("g2b", fixed="FixedTwo", plans="P_3one", names="CoreNames", lens=tset([]))
            # G2c: rdata-level operations and rollbacks, two operations
            add("g2c", fixed="FixedTwo", plans="P_2", names="NoApexCore", lens=tset([]), optypes=tset(["NS", "CNAME"]), rdids=tset([1, 2]),
                kinds=tset(["add", "delrd", "delnode"]), ends=tset(["commit", "rollback"]))
        # G3: long seeded histories: all operation kinds, TXT, two rdatas, rollbacks, reloads
        n = 1200 if quick else 15000
        add("g3", sim=(n, 60, ctx.seed + 1), names="UNames" if quick else "WNames", qset="U" if quick else "W",
            optypes=tset(["NS", "A", "TXT", "CNAME"]), rdids=tset([1, 2]), recs="URecs" if quick else "WRecsOne",
            lens=tset([4, 6, 8]), kinds=tset(["put", "add", "delrd", "delrds", "delnode"]), plans="P_sim",
            ends=tset(["commit", "commit", "rollback"]))
        # G4: B-tree restructuring: a big owner universe (every name of the table: up to a dozen sibling
        #     cuts), loads of 10-18 records, many rollbacks; only run with small branching factors
        add("g4", sim=(500 if quick else 6000, 70, ctx.seed + 11), names="BNames", qset="W", optypes=tset(["NS", "A", "CNAME"]),
            rdids=tset([1]), recs="BRecs", lens=tset([10, 14, 18]), kinds=tset(["put", "add", "delrd", "delrds", "delnode"]),
            plans="P_sim", ends=tset(["commit", "rollback"]))
        # G5: the same, systematically: zones loaded in ascending order with 6 .. all names of the table
        #     (with and without NS at every possible sibling cut), then ONE transaction with one put /
        #     delete-node anywhere, ROLLED BACK (thorough: or committed); the committed version is projected again
        add("g5", names="BNames", qset="W", fixed="FixedAsc", lens=tset([]), plans="P_1", kinds=tset(["put", "delnode"]),
            ends=tset(["rollback"] if quick else ["commit", "rollback"]))
        D.setup(*table)
        jobs = []

        def cname_conflict(h):
            # the zone-file reader refuses CNAME and other data at one owner (CNAMEAndOtherData), so such a
            # load cannot be done through dns.zone.from_text: these histories run only in "origin" mode
            recs = h[0]["recs"]
            cn = {r[0] for r in recs if r[1] == "CNAME"}
            return any(r[0] in cn and r[1] != "CNAME" for r in recs)

        def job(h, qset, rel, sp, tag, i, mk, bt):
            if mk == "learn" and cname_conflict(h):
                return
            tid = "%s.%d.%s%s%s" % (tag, i, "rel" if rel else "abs", ".learn" if mk == "learn" else "", ".t%d" % bt if bt else "")
            jobs.append((h, qset, rel, sp, tid, mk, bt))

        for i, (h, qset, tag) in enumerate(hists):
            for rel in (True, False):
                r = 1 if rel else 0
                # the other spelling of every name (absolute names to a relativized zone and vice versa):
                # every 5th history, alternating
                sp = "oth" if (i % 5 == 0 and (i // 5) % 2 == r) else "nat"
                # bt = branching factor of the zone's B-trees: 0 = the default (127: every tree of these
                # zones is one leaf), 3 and 4 = splits / merges / steals / multi-level copy-on-write
                # happen within the universe.  Every (history, relativity) pair is run; the branching
                # factors are spread over them.
                if tag == "g4":
                    job(h, qset, rel, sp, tag, i, "origin", 3 if (i + r) % 2 == 0 else 4)
                    continue
                if tag == "g5":  # one configuration per history: (rel, t=3) or (abs, t=4), swapped every other history
                    if (i // 2) % 2 == r:
                        job(h, qset, rel, sp, tag, i, "origin", 3 if i % 2 == 0 else 4)
                    continue
                small_g1 = tag.startswith("g1") and tag != "g1chain"
                if small_g1:
                    job(h, qset, rel, sp, tag, i, "origin", 0)
                    job(h, qset, rel, sp, tag, i, "origin", 3)
                    if i % 2 == r:
                        job(h, qset, rel, sp, tag, i, "origin", 4)
                else:
                    job(h, qset, rel, sp, tag, i, "origin", 3 if (i + r) % 2 == 0 else 0)
                    if i % 4 == 0 and (i // 4) % 2 == r:
                        job(h, qset, rel, sp, tag, i, "origin", 4)
                # the same history on a zone created WITHOUT an origin: dns.zone.from_text learns it from
                # $ORIGIN in the first transaction.  Every load order (G1), a share of the rest.
                if small_g1 or i % (8 if tag.startswith("g2") else 3) == 0:
                    job(h, qset, rel, "oth" if i % 2 else "nat", tag, i, "learn", 3 if (i // 2 + r) % 2 else 0)
        ctx.extra["histories"] = len(hists)
        traces = ctx.pmap(D.run_job, jobs)
        ctx.distinct = set(j[4] for j in jobs)
        ctx.extra["traces_by_branching_factor"] = {str(b or 127): sum(1 for j in jobs if j[6] == b) for b in (0, 3, 4)}
        ctx.extra["traces_with_multi_level_name_tree"] = sum(1 for tr in traces if tr.get("shape", [0, 0])[0])
        ctx.extra["traces_with_multi_level_delegation_index"] = sum(1 for tr in traces if tr.get("shape", [0, 0])[1])
        for tr in traces[:2]:
            ctx.sample({"tid": tr["tid"], "rel": tr["rel"], "ev": [{k: (v if k != "obs" else {kk: vv[:4] for kk, vv in v.items()})
                                                                   for k, v in e.items()} for e in tr["ev"][:2]]})
    commits = sum(1 for tr in traces for e in tr["ev"] if "obs" in e)
    nq = {"U": len(D.QSETS["U"]), "W": len(D.QSETS["W"])}
    ctx.evaluations = sum(nq[tr["qset"]] for tr in traces for e in tr["ev"] if "obs" in e)
    ctx.extra["commits_judged"] = commits
    rejects = ctx.validate("Trace_BTreeZone", "Trace_BTreeZone.cfg", traces)
    ctx.extra["rejected_traces"] = len(rejects)
    for tr, line, clause in rejects:
        cl, sig, what = classify(tr, line, clause)
        ctx.violation(cl, sig, "relativize=%s spelling=%s %s" % (tr.get("rel"), tr.get("sp"), what),
                      {"hist": strip(tr), "qset": tr.get("qset"), "rel": tr.get("rel"), "sp": tr.get("sp"), "mk": tr.get("mk", "origin"), "bt": tr.get("bt", 0), "line": line,
                       "mismatches": clause if isinstance(clause, list) else [clause],
                       "names": {str(i + 1): ".".join(lb.decode("latin1") for lb in n) or "@" for i, n in enumerate(D.TABLE.labels)},
                       "trace": tr})
