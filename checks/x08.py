"""X08 - the zone's direct (non-transaction) node API and the node exclusivity rules.
Growth of the specification beyond C01-C20 (DESIGN.md section 7); not in MANIFEST.json."""
import json
import os

from drivers import x08_direct

LEVEL = "model_checking"
META = {
    "text": "ZoneDirect.tla is a reference model, written from the docstrings, of the direct API of a zone (find/get/delete "
            "node, find/get/delete/replace rdataset, find/get rrset, iterate_rdatasets/iterate_rdatas, the dictionary "
            "protocol, ==, get_soa, check_origin, owner-name validation), of dns.node.Node (CNAME-and-other-data "
            "exclusivity on every insertion, classify, immutable wrappers) and of one-call transactions feeding the same "
            "nodes.  TLC checks its laws (a node never holds CNAME-kind and REGULAR-kind rdatasets together, find_* raises "
            "exactly when get_* returns None, create=True is idempotent, deleting what is absent is a no-op, a versioned "
            "zone changes only through a transaction), enumerates call histories (every single call in the full universe, "
            "every spelling of the owner name, all pairs of mutating calls, seeded simulation of longer histories) which are "
            "replayed on dns.zone.Zone, dns.versioned.Zone and dns.btreezone.Zone (relativize on/off); Trace_ZoneDirect "
            "requires every call to be the model's action: an allowed outcome, the model's return value, the model's zone "
            "content after every call, and the same answer through a read-only transaction.",
    "note": "Exhaustive only inside the Gen/MC constants (3 owner names + one out-of-zone name, 8 types, 2 rdatas, 2 TTLs, "
            "up to 10 initial zones; pairs on a trimmed universe); longer histories are seeded TLC simulations.  Order of rdatasets "
            "in a node, exception subclasses beyond the documented families and the outcomes the documentation leaves open "
            "(listed in notes/X08.md) are free.  Trusted: TLC, the Json module, the projection in drivers/x08_direct.py.",
    "technique": "TLA+ reference model + TLC exhaustive check; TLC-generated histories replayed on the code; TLC trace validation",
    "design_ref": "DESIGN.md section 7 (growth); notes/X08.md",
}
ZCONFIGS = {True: [("plain", True), ("plain", False)],
            False: [("versioned", True), ("btree", False), ("btree", True), ("versioned", False)]}

GEN_CFG = """INIT GInit
NEXT GNext
CONSTANTS
  Names = {names}
  Types = {types}
  RdIds = {rdids}
  TTLs = {ttls}
  Filters <- {filters}
  InitZones <- {inits}
  NodeShapes <- {shapes}
  MaxOps = {maxops}
  MinOps = {minops}
  Ops = {ops}
  SpSeq <- {spellings}
  RFSeq <- {rforms}
  TFSeq <- {tforms}
  Rotate = {rotate}
  Rots {rots}
  WithOut = {without}
  Muts = {muts}
INVARIANT Emit
CHECK_DEADLOCK FALSE
"""
ALLT = ["SOA", "NS", "A", "CNAME", "NSEC", "RRSIG/A", "RRSIG/CNAME", "RRSIG/NSEC"]
READS = ["find_rrset", "get_rrset", "iterate_rdatasets", "iterate_rdatas", "getitem", "get", "contains", "keys", "get_soa",
         "check_origin", "eq", "node_info"]
LOOKUPS = ["find_node", "get_node", "find_rdataset", "get_rdataset", "node_find", "node_get"]   # mutate when create=True
WRITES = ["delete_node", "delete_rdataset", "replace_rdataset", "addto", "setitem", "delitem", "txn_add", "txn_replace",
          "txn_deltype", "txn_delname", "node_delete", "node_replace"]
ALLOPS = READS + LOOKUPS + WRITES


def tset(xs):
    return "{" + ", ".join(json.dumps(x) if isinstance(x, str) else str(x) for x in xs) + "}"


def gen(ctx, name, **kw):
    d = dict(names=tset(["@", "a", "b.a"]), types=tset(ALLT), rdids=tset([1, 2]), ttls=tset([300, 600]), filters="MCFilters",
             inits="MCInitAll", shapes="MCShapes", maxops=1, minops=1, ops=tset(ALLOPS), spellings="SP1",
             rforms="RF1", tforms="TF1", rotate="FALSE", rots="= {0}", without="TRUE", muts="{TRUE, FALSE}")
    sim = {k: kw.pop(k) for k in ("simulate", "depth", "seed", "limit") if k in kw}
    d.update(kw)
    return ctx.generate("Gen_ZoneDirect", ctx.cfg(name, GEN_CFG.format(**d)), deadlock=False, **sim)


def is_write(e):
    return e["op"] in WRITES or (e["op"] in LOOKUPS and e.get("cr"))


def classify(tr, line, clause):
    """Case signature of a rejected trace (matched against known_findings.json)."""
    ev = tr["ev"]
    e = ev[line - 1] if line and 0 < line <= len(ev) else {}
    return "%s:%s:%s:%s:%s%s" % (clause, e.get("op", "?"), tr.get("zclass"), "rel" if tr.get("rel") else "abs",
                                 e.get("exc", ""), ":out" if e.get("n") == "OUT" else "")


def note_drift(ctx, traces):
    """Places where the code does something else than the letter of the documentation without breaking a hard
    clause (the model admits both): counted, not reported."""
    d = ctx.extra.setdefault("drift_cases", {"check_origin_no_origin_node_is_NoSOA_not_KeyError": 0,
                                             "versioned_setitem_delitem_not_UseTransaction": 0,
                                             "get_soa_empty_rdataset_not_NoSOA": 0, "contains_or_get_out_of_zone_raises": 0})
    for tr in traces:
        ev = tr["ev"]
        for i, e in enumerate(ev[1:], start=1):
            op, exc = e.get("op"), e.get("exc")
            if op == "check_origin" and exc == "NoSOA" and not any(r[0] == "@" for r in ev[i - 1]["st"]):
                d["check_origin_no_origin_node_is_NoSOA_not_KeyError"] += 1
            elif op in ("setitem", "delitem") and not tr["mut"] and exc not in ("UseTransaction", "KeyError"):
                d["versioned_setitem_delitem_not_UseTransaction"] += 1
            elif op == "get_soa" and e["res"] == "err" and exc != "NoSOA":
                d["get_soa_empty_rdataset_not_NoSOA"] += 1
            elif op in ("contains", "get") and e.get("n") == "OUT" and e["res"] == "err":
                d["contains_or_get_out_of_zone_raises"] += 1
    ctx.drift = sum(d.values())


def run(ctx):
    quick = ctx.tier == "quick"
    ctx.rule = ("behaviours = call histories enumerated by TLC from Gen_ZoneDirect (exhaustive single calls and pairs + seeded "
                "-simulate); each replayed on dns.zone.Zone (mut) or dns.versioned.Zone / dns.btreezone.Zone x relativize on/off; "
                "distinct = distinct (history, zone configuration); non-trivial = the history contains a mutating call")
    ctx.assumptions += ["TLC and CommunityModules Json are correct", "driver projection (drivers/x08_direct.py) is faithful",
                        "exhaustive only inside the constants of the MC/Gen configs; beyond them seeded simulation"]
    if ctx.replay_case:
        case = ctx.replay_case["case"]
        jobs = [(case["hist"], case["zclass"], case["rel"], "replay")]
    else:
        skip_mc = bool(os.environ.get("X08_SKIP_MC"))   # development / mutation testing convenience
        if not skip_mc:
            ctx.model("MC_ZoneDirect", "MC_ZoneDirect_quick.cfg", workers=1)
            ctx.model("MC_ZoneDirect", "MC_ZoneDirect_wide.cfg", workers=1)
        if not quick and not skip_mc:
            ctx.model("MC_ZoneDirect", "MC_ZoneDirect_thorough.cfg")
            ctx.model("MC_ZoneDirect", "MC_ZoneDirect_deep.cfg")
        hists = []
        # G1: every single call over the full universe (3 names + out-of-zone, 8 types, initial zones, both kinds)
        hists += gen(ctx, "g1.cfg", inits="MCInitQ" if quick else "MCInitAll")
        n_g1 = len(hists)
        # G1s: every single call in every spelling of the owner name and every argument form (trimmed types / zones)
        hists += gen(ctx, "g1s.cfg", spellings="SP4", rforms="RF2",
                     tforms="TF3", types=tset(["A", "CNAME", "RRSIG/A"]),
                     inits="MCInitA" if quick else "MCInitMid", filters="MCFiltersSmall", shapes="MCShapes1",
                     ttls=tset([300]), rdids=tset([1]) if quick else tset([1, 2]),
                     ops=tset([o for o in ALLOPS if o not in ("keys", "get_soa", "check_origin", "eq", "iterate_rdatasets", "iterate_rdatas")]))
        # G2: all pairs of inserting / deleting calls at one name of a plain zone: the exclusivity rule from every
        #     order of arrival;  G2v: the same through transactions on the versioned zones
        G2OPS = ["find_rdataset", "replace_rdataset", "addto", "delete_rdataset", "txn_add", "txn_replace", "txn_deltype",
                 "node_replace", "node_delete", "node_find", "setitem", "delete_node"]
        T2 = ["A", "CNAME", "NSEC", "RRSIG/CNAME"] if quick else ["A", "CNAME", "NSEC", "RRSIG/CNAME", "RRSIG/A", "RRSIG/NSEC"]
        hists += gen(ctx, "g2.cfg", maxops=2, minops=2, names=tset(["a"]), without="FALSE", muts="{TRUE}", ops=tset(G2OPS),
                     types=tset(T2), rdids=tset([1]), ttls=tset([300] if quick else [300, 600]), inits="MCInitTrim",
                     shapes="MCShapesTrim", filters="MCFiltersSmall")
        hists += gen(ctx, "g2v.cfg", maxops=2, minops=2, names=tset(["a"]), without="FALSE", muts="{FALSE}",
                     ops=tset(["txn_add", "txn_replace", "txn_deltype", "txn_delname", "node_info"]),
                     types=tset(T2), rdids=tset([1] if quick else [1, 2]), ttls=tset([300, 600]), inits="MCInitTrim",
                     shapes="MCShapesTrim", filters="MCFiltersSmall", spellings="SPS", tforms="TF2", rotate="TRUE", rots="= {0, 1}")
        if not quick:   # G2b: all triples of the creating / inserting calls
            hists += gen(ctx, "g2b.cfg", maxops=3, minops=3, names=tset(["a"]), rdids=tset([1]), ttls=tset([300]),
                         without="FALSE", muts="{TRUE}",
                         ops=tset(["replace_rdataset", "find_rdataset", "txn_add", "delete_rdataset", "node_replace"]),
                         types=tset(["A", "CNAME", "NSEC", "RRSIG/CNAME"]), inits="MCInitTrim2",
                         shapes="MCShapesTrim", filters="MCFiltersSmall")
        # G3: seeded random histories of 5 (quick) / 8 calls, full universe; the k-th call of a history uses the
        #     (rot+k)-th spelling / form
        n, depth = (800, 5) if quick else (5000, 8)
        hists += gen(ctx, "g3.cfg", maxops=depth, minops=depth, spellings="SP5", rotate="TRUE", rots="<- R30",
                     rforms="RF2", tforms="TF3",
                     simulate="num=%d" % n, depth=depth + 3, seed=ctx.seed + 1, limit=4 * n)
        jobs = []
        for i, h in enumerate(hists):
            cfgs = ZCONFIGS[h[0]["mut"]]
            if quick or i >= n_g1:   # one plain / two versioned configurations per history, rotated; thorough G1: all
                cfgs = [cfgs[i % 2]] if h[0]["mut"] else [cfgs[i % 4], cfgs[(i + 1) % 4]]
            for zc, rel in cfgs:
                jobs.append((h, zc, rel, "h%d.%s.%s" % (i, zc, "rel" if rel else "abs")))
        ctx.extra["histories"] = len(hists)
        ctx.extra["nontrivial_histories"] = sum(1 for h in hists if any(is_write(e) for e in h[1:]))
        ctx.distinct = set(j[3] for j in jobs if any(is_write(e) for e in j[0][1:]))
    jobmap = {j[3]: j for j in jobs}
    rejects, total, calls = [], 0, 0
    BATCH = 120000
    for b in range(0, len(jobs), BATCH):
        part = jobs[b:b + BATCH]
        traces = [x08_direct.replay(*part[0])] if ctx.replay_case else ctx.pmap(x08_direct.run_job, part)
        if b == 0:
            for tr in traces[:2] + traces[-1:]:
                ctx.sample({"tid": tr["tid"], "ev": tr["ev"][:3]})
        total += len(traces)
        calls += sum(len(tr["ev"]) - 1 for tr in traces)
        note_drift(ctx, traces)
        rejects += ctx.validate("Trace_ZoneDirect", "Trace_ZoneDirect.cfg", traces)
        del traces
    ctx.evaluations = calls
    ctx.extra["calls_judged"] = calls
    for tr, line, clause in rejects:
        e = tr["ev"][line - 1] if line else {}
        job = jobmap.get(tr["tid"], (None,))
        ctx.violation(clause, classify(tr, line, clause),
                      "zone=%s relativize=%s event %s: %s" % (tr.get("zclass"), tr.get("rel"), line, json.dumps(e)[:300]),
                      {"hist": job[0], "zclass": tr.get("zclass"), "rel": tr.get("rel"), "line": line, "trace": tr})
