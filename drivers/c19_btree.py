"""C19 driver: replay a script of B-tree API calls (from Gen_BTreeMap) on the real
dns.btree classes and record one event per call: outcome, returned value, and - after
EVERY call, for EVERY handle - what the tree looks like through its public reading API
(iteration, len, membership) plus the raw node shape.  Only drives and projects;
Trace_BTreeMap judges.

Log compression: a handle whose observation is identical to the previous observation
recorded for that handle is logged as {"ref": <index of the event holding it>}; the
trace specification resolves the reference and compares it with the CURRENT model state,
so this is lossless."""
import copy
import os
import signal

import dns.btree as B
import dns.name

from vlib import c19cov

NH = 3  # handles 1..NH
NC = 2  # cursors 1..NC

_TRACER = None


def tracer():
    global _TRACER
    if _TRACER is None:
        fn = B.__file__
        _TRACER = c19cov.ArcTracer(fn)
    return _TRACER


class Watchdog(BaseException):
    """A guard of run_job fired (a call or a projection never came back)."""


# Three guards against a B-tree operation that never returns (seen with mutants that corrupt the
# structure: MutableSet.clear() spins).  A spinning operation burns CPU, so the limits are on work
# done, not on elapsed time - a stalled, overloaded machine cannot turn a good job into a violation:
LINE_BUDGET = 500000   # deterministic: dns/btree.py lines ONE traced API call may execute
                       # (clear() of 48 keys needs ~2*10^4)
CPU_LIMIT = 120        # CPU-seconds (ITIMER_VIRTUAL) per script; a 150-call script needs ~0.05
WALL_LIMIT = 7200      # seconds (ITIMER_REAL), very large last resort only

_NAMES = {}
_ORIGIN = dns.name.from_text("example.")


def name_key(k):
    """Order-preserving embedding of small integers into DNS names (the key type dns.btreezone
    uses): k07.example. < k08.example. in canonical DNS order."""
    n = _NAMES.get(k)
    if n is None:
        n = dns.name.from_text("k%03d" % k, _ORIGIN)
        _NAMES[k] = n
    return n


def name_unkey(n):
    try:
        return int(n.labels[0][1:])
    except Exception:  # noqa: BLE001 - a foreign key becomes a value nobody matches
        return -1


def call(fn, cov):
    if cov:
        tr = tracer()
        tr.start(LINE_BUDGET)
    try:
        try:
            return "ok", "", fn()
        except (Watchdog, c19cov.Budget):
            raise
        except BaseException as e:  # noqa: BLE001 - every outcome is an event
            return "err", type(e).__name__, None
    finally:
        if cov:
            tr.stop()


def elt_value(elt):
    return elt.value() if isinstance(elt, B.KV) else 0


def shape(node, U):
    keys = [U(e.key()) for e in node.elts]
    kids = [] if node.is_leaf else [shape(c, U) for c in node.children]
    return [keys, kids]


def observe(tree, is_set, universe, U):
    """What one handle looks like from outside.  Never raises."""
    if tree is None:
        return {"ref": 0, "live": False}
    try:
        if is_set:
            keys = list(tree)
            vals = [0] * len(keys)
        else:
            items = list(tree.items())
            keys = [k for k, _ in items]
            vals = [v for _, v in items]
        return {"ref": 0, "live": True, "keys": [U(k) for k in keys], "vals": vals, "len": len(tree),
                "mem": [U(k) for k in universe if k in tree], "shape": shape(tree.root, U)}
    except (Watchdog, c19cov.Budget):
        raise
    except BaseException as e:  # noqa: BLE001 - a broken tree must become an unmatched observation
        return {"ref": 0, "live": True, "keys": [], "vals": [], "len": -1, "mem": [], "shape": [[], []],
                "err": type(e).__name__}


def replay(script, cls, in_order, tid, cov=False, maxkey=None, trace=None):
    is_set = cls == "set"
    klass = B.BTreeSet if is_set else B.BTreeDict
    if cls == "ndict":
        K, U = name_key, name_unkey
    else:
        K = U = (lambda x: x)
    if maxkey is None:
        maxkey = 0
        for e in script:
            maxkey = max([maxkey, e.get("k", 0)] + list(e.get("ks", [])))
    universe = [K(k) for k in range(0, maxkey + 2)]
    trees = {h: None for h in range(1, NH + 1)}
    curs = {c: None for c in range(1, NC + 1)}  # c -> [kind, object, handle]
    last_full = {}  # h -> (event index (1-based), observation)
    if trace is None:
        trace = {"tid": tid, "cls": cls, "in_order": in_order, "ev": []}
    ev = trace["ev"]

    def mk_elt(k, v):
        return B.Member(k) if is_set else B.KV(k, v)

    for e in script:
        op = e["op"]
        rec = dict(e)
        val = ["-"]
        if op == "new":
            h = e["h"]
            res, exc, obj = call(lambda: klass(t=e["t"], in_order=in_order), cov)
            if res == "ok":
                trees[h] = obj
        elif op == "set":
            tr = trees[e["h"]]
            k = K(e["k"])
            v = 0 if is_set else e["v"]
            rec["v"] = v
            if e["form"] == "elt":
                res, exc, old = call(lambda: tr.insert_element(mk_elt(k, v), tr.in_order), cov)
                if res == "ok":
                    val = ["none"] if old is None else ["val", elt_value(old)]
            elif is_set:
                res, exc, _ = call(lambda: tr.add(k), cov)
            else:
                res, exc, _ = call(lambda: tr.__setitem__(k, v), cov)
        elif op == "load":
            tr = trees[e["h"]]
            v = 0 if is_set else e["v"]
            rec["v"] = v
            if is_set:
                res, exc, _ = call(lambda: tr.__ior__([K(k) for k in e["ks"]]), cov)
            else:
                res, exc, _ = call(lambda: tr.update([(K(k), v) for k in e["ks"]]), cov)
        elif op == "del":
            tr = trees[e["h"]]
            k = K(e["k"])
            form = e["form"]
            if form == "key":
                res, exc, old = call(lambda: tr.delete_key(k), cov)
                if res == "ok":
                    val = ["none"] if old is None else ["val", elt_value(old)]
            elif is_set:
                if form == "discard":
                    res, exc, _ = call(lambda: tr.discard(k), cov)
                else:
                    rec["form"] = "item"
                    res, exc, _ = call(lambda: tr.remove(k), cov)
            elif form == "item":
                res, exc, _ = call(lambda: tr.__delitem__(k), cov)
            elif form == "discard":
                res, exc, old = call(lambda: tr.pop(k, None), cov)
                if res == "ok":
                    val = ["none"] if old is None else ["val", old]
            else:  # pop
                res, exc, old = call(lambda: tr.pop(k), cov)
                if res == "ok":
                    val = ["val", old]
        elif op == "delx":
            tr = trees[e["h"]]
            k = K(e["k"])
            elt = tr.get_element(k) if e["same"] else mk_elt(k, 0)
            if elt is None:  # the script asked for the stored element of an absent key
                elt = mk_elt(k, 0)
                rec["same"] = False
            res, exc, old = call(lambda: tr.delete_exact(elt), cov)
            if res == "ok":
                val = ["none"] if old is None else ["val", elt_value(old)]
        elif op == "popmin":
            tr = trees[e["h"]]
            if is_set:
                res, exc, got = call(lambda: tr.pop(), cov)
                if res == "ok":
                    val = ["elt", U(got), 0]
            else:
                res, exc, got = call(lambda: tr.popitem(), cov)
                if res == "ok":
                    val = ["elt", U(got[0]), got[1]]
        elif op == "clear":
            tr = trees[e["h"]]
            res, exc, _ = call(lambda: tr.clear(), cov)
        elif op == "freeze":
            tr = trees[e["h"]]
            res, exc, _ = call(lambda: tr.make_immutable(), cov)
        elif op == "clone":
            src = trees[e["src"]]
            if e["form"] == "copy":
                res, exc, obj = call(lambda: copy.copy(src), cov)
            else:
                res, exc, obj = call(lambda: klass(original=src, in_order=in_order), cov)
            if res == "ok":
                trees[e["dst"]] = obj
        elif op == "drop":
            h = e["h"]
            for c in curs:
                if curs[c] is not None and curs[c][2] == h:
                    curs[c] = None
            trees[h] = None
            res, exc = "ok", ""
        elif op == "get":
            tr = trees[e["h"]]
            k = K(e["k"])
            form = e["form"]
            if is_set and form in ("item", "get"):
                form = "in"
            rec["form"] = form
            if form == "item":
                res, exc, got = call(lambda: tr[k], cov)
                if res == "ok":
                    val = ["val", got]
            elif form == "get":
                res, exc, got = call(lambda: tr.get(k), cov)
                if res == "ok":
                    val = ["none"] if got is None else ["val", got]
            elif form == "in":
                res, exc, got = call(lambda: k in tr, cov)
                if res == "ok":
                    val = ["bool", bool(got)]
            else:
                res, exc, got = call(lambda: tr.get_element(k), cov)
                if res == "ok":
                    val = ["none"] if got is None else ["val", elt_value(got)]
        elif op == "len":
            tr = trees[e["h"]]
            res, exc, got = call(lambda: len(tr), cov)
            if res == "ok":
                val = ["int", got]
        elif op == "iter":
            tr = trees[e["h"]]
            form = e["form"]
            if is_set and form == "items":
                form = "keys"
            rec["form"] = form
            if form == "keys":
                res, exc, got = call(lambda: list(tr) if is_set else list(tr.keys()), cov)
                if res == "ok":
                    val = ["keys", [U(k) for k in got]]
            elif form == "items":
                res, exc, got = call(lambda: list(tr.items()), cov)
                if res == "ok":
                    val = ["items", [[U(k), v] for k, v in got]]
            else:
                out = []
                res, exc, _ = call(lambda: tr.visit_in_order(out.append), cov)
                if res == "ok":
                    val = ["items", [[U(x.key()), elt_value(x)] for x in out]]
        elif op == "extreme":
            tr = trees[e["h"]]
            res, exc, got = call((lambda: tr.root.maximum()) if e["max"] else (lambda: tr.root.minimum()), cov)
            if res == "ok":
                val = ["elt", U(got.key()), elt_value(got)]
        elif op == "copen":
            tr = trees[e["h"]]
            kind = e["kind"]
            if kind == "iter":
                res, exc, obj = call(lambda: iter(tr), cov)
            elif kind == "reg":
                res, exc, obj = call(lambda: tr.cursor().__enter__(), cov)
            else:
                res, exc, obj = call(lambda: tr.cursor(), cov)
            if res == "ok":
                curs[e["c"]] = [kind, obj, e["h"]]
        elif op == "cclose":
            kind, obj, _h = curs[e["c"]]
            if kind == "iter":
                res, exc, _ = call(lambda: obj.close(), cov)
            elif kind == "reg":
                res, exc, _ = call(lambda: obj.__exit__(None, None, None), cov)
            else:
                res, exc = "ok", ""
            curs[e["c"]] = None
        elif op == "seek":
            kind, obj, _h = curs[e["c"]]
            res, exc, _ = call(lambda: obj.seek(K(e["k"]), e["before"]), cov)
        elif op in ("first", "last"):
            kind, obj, _h = curs[e["c"]]
            res, exc, _ = call(obj.seek_first if op == "first" else obj.seek_last, cov)
        elif op in ("next", "prev"):
            kind, obj, _h = curs[e["c"]]
            rec["kind"] = kind
            if kind == "iter":
                res, exc, got = call(lambda: next(obj), cov)
                if res == "ok":
                    val = ["key", U(got)]
                elif exc == "StopIteration":  # the iterator protocol's way of returning "no element"
                    res, val = "ok", ["none"]
            else:
                res, exc, got = call(obj.next if op == "next" else obj.prev, cov)
                if res == "ok":
                    val = ["none"] if got is None else ["elt", U(got.key()), elt_value(got)]
        elif op == "park":
            kind, obj, _h = curs[e["c"]]
            res, exc, _ = call(obj.park, cov)
        else:
            raise ValueError("unknown op %r" % op)
        rec.update(res=res, exc=exc, val=val)
        obs = []
        idx = len(ev) + 1
        for h in range(1, NH + 1):
            o = observe(trees[h], is_set, universe, U)
            lf = last_full.get(h)
            if lf is not None and lf[1] == o:
                obs.append({"ref": lf[0]})
            else:
                last_full[h] = (idx, o)
                obs.append(o)
        rec["obs"] = obs
        ev.append(rec)
    return trace


def _alarm(signum, frame):
    raise Watchdog()


def run_job(job):
    script, cls, in_order, tid, cov = job
    tr = {"tid": tid, "cls": cls, "in_order": in_order, "ev": []}
    old = signal.signal(signal.SIGALRM, _alarm)
    oldv = signal.signal(signal.SIGVTALRM, _alarm)
    signal.setitimer(signal.ITIMER_REAL, WALL_LIMIT)
    signal.setitimer(signal.ITIMER_VIRTUAL, CPU_LIMIT)
    try:
        replay(script, cls, in_order, tid, cov, trace=tr)
    except BaseException as e:  # noqa: BLE001 - a driver failure / a call that never returns is an event nobody matches
        if cov:
            tracer().stop()
        tr["ev"].append({"op": "driver-error", "exc": type(e).__name__, "detail": repr(e)[:200],
                         "during": script[len(tr["ev"])] if len(tr["ev"]) < len(script) else {}})
    finally:
        signal.setitimer(signal.ITIMER_VIRTUAL, 0)
        signal.setitimer(signal.ITIMER_REAL, 0)
        signal.signal(signal.SIGVTALRM, oldv)
        signal.signal(signal.SIGALRM, old)
    if cov:
        tr["cov"] = [list(a) for a in tracer().new_arcs()]
    return tr
