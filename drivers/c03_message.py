"""C03/C08 driver helpers: build real dnspython objects from a message script (Gen_Renderer),
step the real low-level dns.renderer.Renderer, run Message.to_wire / from_wire / to_wire,
and record events + projections.  Only drives and projects; Trace_Renderer judges."""
import struct

import dns.edns
import dns.exception
import dns.flags
import dns.message
import dns.name
import dns.opcode
import dns.rdata
import dns.rdataclass
import dns.rdatatype
import dns.renderer
import dns.rrset
import dns.tsig
import dns.update
import dns.rdtypes.ANY.NS
import dns.rdtypes.ANY.RRSIG
import dns.rdtypes.ANY.SIG
import dns.rdtypes.ANY.SOA
import dns.rdtypes.ANY.TXT
import dns.rdtypes.IN.A
import dns.rdtypes.IN.SRV

IN = dns.rdataclass.IN
ORIGIN = dns.name.Name((b"ex", b""))
KIND_TYPE = {"SIG": 24, "NULL": 10, "A": 1, "NS": 2, "SOA": 6, "TXT": 16, "SRV": 33, "RRSIG": 46, "BIG": 65280}


def labels(n):
    return [list(l) for l in n.labels if l != b""]


def mkname(ls, rel):
    """name from a list of labels (lists of octets); with rel, names literally ending in the
    label 'ex' are handed over relative to the origin ex."""
    bl = tuple(bytes(l) for l in ls)
    if rel and bl and bl[-1] == b"ex":
        return dns.name.Name(bl[:-1])
    return dns.name.Name(bl + (b"",))


def absname(n, rel):
    return n.derelativize(ORIGIN) if not n.is_absolute() else n


def limbs(v):
    return [(v >> 16) & 0xFFFF, v & 0xFFFF]


def unlimbs(l):
    return (l[0] << 16) | l[1]


def make_rdata(kind, n1, n2, k, rel, rdclass=IN):
    if kind == "A":
        return dns.rdtypes.IN.A.A(IN, 1, "10.0.0.%d" % k)
    if kind == "NS":
        return dns.rdtypes.ANY.NS.NS(rdclass, 2, mkname(n1, rel))
    if kind == "SOA":
        return dns.rdtypes.ANY.SOA.SOA(rdclass, 6, mkname(n1, rel), mkname(n2, rel), k, 3600, 600, 86400, 300)
    if kind == "SRV":
        return dns.rdtypes.IN.SRV.SRV(IN, 33, k, 5, 53, mkname(n1, rel))
    if kind == "NULL":
        return dns.rdata.GenericRdata(rdclass, 10, b"\xaa" * k)
    if kind == "SIG":
        return dns.rdtypes.ANY.SIG.SIG(rdclass, 24, 1 if k % 2 else 2, 8, 2, 300, 1893456000, 1577836800, 1000 + k,
                                       mkname(n1, rel), bytes([0, 0, k]))
    if kind == "RRSIG":
        return dns.rdtypes.ANY.RRSIG.RRSIG(rdclass, 46, 1 if k % 2 else 2, 8, 2, 300, 1893456000, 1577836800, 1000 + k,
                                           mkname(n1, rel), bytes([0, 0, k]))
    if kind == "TXT":
        return dns.rdtypes.ANY.TXT.TXT(rdclass, 16, [bytes([120 + k // 1000]) * (k % 1000)])
    return dns.rdata.GenericRdata(rdclass, 65280, b"\xaa" * k)


def rec_rdatas(r, rel, zc=IN):
    step = 1000 if r["kind"] == "TXT" else 0 if r["kind"] == "BIG" else 1
    n = r["nrd"] or 1
    return [make_rdata(r["kind"], r["n1"], r["n2"], r["k"] + step * i, rel, zc) for i in range(n)]


FORM_CLS = {"rrset-exists": 255, "name-in-use": 255, "del-rrset": 255, "del-name": 255,
            "rrset-absent": 254, "name-not-in-use": 254, "del-rr": 254}
ANY_TYPE = ("name-in-use", "name-not-in-use", "del-name")
EMPTY = ("rrset-exists", "name-in-use", "rrset-absent", "name-not-in-use", "del-rrset", "del-name")


def zone_class(script):
    h = script[0]
    return dns.rdataclass.RdataClass.make(h.get("zcls", 1)) if h["opcode"] == dns.opcode.UPDATE else IN


def make_rrset(r, rel, zc=IN):
    """the record set of a script record in the representation the parser produces
    (class of the zone + deleting marker for the RFC 2136 class ANY/NONE forms)"""
    form = r["form"]
    name = mkname(r["name"], rel)
    rdtype = 255 if form in ANY_TYPE else KIND_TYPE[r["kind"]]
    deleting = FORM_CLS.get(form)
    empty = form in EMPTY or (form == "plain" and r["nrd"] == 0)
    rds = [] if empty else rec_rdatas(r, rel, zc)
    covers = rds[0].covers() if rds else dns.rdatatype.NONE
    rs = dns.rrset.RRset(name, zc, rdtype, covers, deleting)
    ttl = 0 if form not in ("plain", "add") else unlimbs(r["ttl"])
    for rd in rds:
        rs.add(rd, ttl)
    if not rds:
        rs.ttl = 0
    return rs


def proj_rrset(rs, rel):
    return {"name": labels(absname(rs.name, rel)), "type": int(rs.rdtype), "cls": int(rs.rdclass),
            "del": int(rs.deleting) if rs.deleting is not None else 0, "ttl": limbs(rs.ttl),
            "rds": [list(rd.to_wire(None, None, ORIGIN)) for rd in rs]}


def proj_table(r):
    return sorted([[labels(absname(k, True)), v] for k, v in r.compress.items()])


def state(r):
    return {"pos": r.output.tell(), "table": proj_table(r), "counts": list(r.counts), "section": r.section,
            "max": r.max_size, "reserved": r.reserved}


def call(fn, *a, **kw):
    try:
        fn(*a, **kw)
        return "ok", ""
    except dns.exception.TooBig:
        return "toobig", "TooBig"
    except dns.exception.FormError:
        return "formerr", "FormError"
    except Exception as ex:  # anything else is an outcome the model never produces
        return "err", type(ex).__name__


def probe_cmp():
    """observe the implementation's free choice per record kind: does the RDATA encoder replace
    an embedded name by a pointer (c) and does it register embedded names as targets (a)"""
    out = {}
    tgt = [[97], [101, 120]]
    for kind in ("NS", "SOA", "SRV", "RRSIG"):
        rd = make_rdata(kind, tgt, tgt, 1, False)
        import io
        f = io.BytesIO()
        f.write(b"\0" * 40)
        table = {mkname(tgt, False): 20}
        rd.to_wire(f, table, None)
        plain = rd.to_wire(None, None, None)
        c = len(f.getvalue()) - 40 < len(plain)
        f = io.BytesIO()
        f.write(b"\0" * 40)
        table = {}
        rd.to_wire(f, table, None)
        a = len(table) > 0
        out[kind] = [bool(c), bool(a)]
    return out


def make_options(opts, typed=True):
    """EDNS options from generic (code, body) pairs.  typed: as the library's own option classes (what a
    parsed message holds, e.g. a forwarder re-rendering it); otherwise GenericOption (caller-supplied)."""
    out = []
    for code, body in opts:
        o = None
        if typed:
            try:
                o = dns.edns.option_from_wire(code, bytes(body), 0, len(body))
            except Exception:
                o = None
        out.append(o if o is not None else dns.edns.GenericOption(code, bytes(body)))
    return out


def hdr_flags(h):
    return h["bits"] | dns.opcode.to_flags(h["opcode"]) | (h["rcode"] & 0xF)


def opt_ttl(h):
    e = h["edns"]
    return ((h["rcode"] >> 4) << 24) | (e[1] << 16) | e[2]


def low_level(script, rel, max_size=65535, entry="rrset"):
    """step the real Renderer through the script; one event per call"""
    h = script[0]
    ev = []
    max_size = h.get("max", max_size)
    zc = zone_class(script)
    r = dns.renderer.Renderer(h["id"], hdr_flags(h), max_size, ORIGIN if rel else None)
    ev.append({"op": "new", "id": h["id"], "flags": hdr_flags(h), **state(r)})
    for s in script[1:]:
        if s["op"] == "q":
            res, exc = call(r.add_question, mkname(s["name"], rel), s["type"], s["cls"])
            ev.append({"op": "q", "name": s["name"], "type": s["type"], "cls": s["cls"], "res": res, **state(r)})
        elif s["op"] == "rr":
            rs = make_rrset(s, rel, zc)
            if entry == "rdataset" and len(rs) > 0 and rs.deleting is None:
                # the other low-level entry point: owner name + plain Rdataset
                res, exc = call(r.add_rdataset, s["sec"], rs.name, rs.to_rdataset(), want_shuffle=False)
            else:
                res, exc = call(r.add_rrset, s["sec"], rs, want_shuffle=False)
            e = dict(s)
            e.update(res=res, **state(r))
            ev.append(e)
        elif s["op"] == "end" and h["edns"][0] == "edns":
            e = h["edns"]
            pad = h.get("pad", 0)
            osize = 0
            if pad:
                # add_opt with padding; osize = size of the OPT record with an empty padding option
                osize = 11 + sum(4 + len(o[1]) for o in e[4]) + 4
                opt = dns.renderer._make_opt(opt_ttl(h), e[3], make_options(e[4]))
                res, exc = call(r.add_opt, opt, pad, osize, 0)
            else:
                res, exc = call(r.add_edns, e[1], opt_ttl(h), e[3], make_options(e[4]))
            ev.append({"op": "opt", "payload": e[3], "ttl": limbs(opt_ttl(h)), "options": e[4], "pad": pad,
                       "osize": osize, "tsize": 0, "res": res, **state(r)})
    r.write_header()
    ev.append({"op": "hdr", **state(r)})
    if h.get("tsig"):
        # low-level signing (add_tsig, or add_multi_tsig for the other entry-point mode) with a fixed clock
        key = dns.tsig.Key(mkname([[107], [101, 120]], False), b"0123456789abcdef", "hmac-sha256")
        real_time = dns.renderer.time

        class _T:
            @staticmethod
            def time():
                return 1600000000.0
        dns.renderer.time = _T
        try:
            if entry == "rdataset":
                res, exc = call(r.add_multi_tsig, None, key.name, key, 300, h["id"], 0, b"", b"", key.algorithm)
            else:
                res, exc = call(r.add_tsig, key.name, key, 300, h["id"], 0, b"", b"", key.algorithm)
        finally:
            dns.renderer.time = real_time
        w = r.get_wire()
        mac = list(w[-38:-6]) if res == "ok" else [0] * 32      # MAC as found in the octets written (observed value)
        ev.append({"op": "tsig", "key": [[107], [101, 120]], "alg": [list(b"hmac-sha256")], "t48": [0, 0, 95, 94, 16, 0],
                   "fudge": 300, "origid": h["id"], "mac": mac, "res": res, **state(r)})
        r.write_header()
        ev.append({"op": "hdr", **state(r)})
    ev.append({"op": "wire", "wire": list(r.get_wire())})
    return ev


def build_message(script, rel, mode):
    """the same message as a dns.message object.  mode 'direct': record sets in the parser's
    representation; mode 'builder': RFC 2136 forms through the UpdateMessage convenience API"""
    h = script[0]
    zc = zone_class(script)
    if h["opcode"] == dns.opcode.UPDATE:
        m = dns.update.UpdateMessage(id=h["id"])
        if rel:
            m.origin = ORIGIN
    else:
        m = dns.message.make_query("x.", "A", id=h["id"]) if False else dns.message.Message(id=h["id"])
        if rel:
            m.origin = ORIGIN
    m.flags = dns.flags.Flag(h["bits"] | dns.opcode.to_flags(h["opcode"]))
    for s in script[1:]:
        if s["op"] == "q":
            m.find_rrset(m.sections[0], mkname(s["name"], rel), s["cls"], s["type"], create=True, force_unique=True)
            if h["opcode"] == dns.opcode.UPDATE:
                m.zone_rdclass = dns.rdataclass.RdataClass.make(s["cls"])
                if not rel:
                    m.origin = None
        elif s["op"] == "rr":
            if mode == "builder" and s["form"] != "plain":
                builder_add(m, s, rel)
            else:
                rs = make_rrset(s, rel, zc)
                if h["opcode"] == dns.opcode.UPDATE and len(rs) > 1:
                    # an update message holds one record per RRset (as its builder and parser do)
                    for rd in rs:
                        one = dns.rrset.RRset(rs.name, rs.rdclass, rs.rdtype, rs.covers, rs.deleting)
                        one.add(rd, rs.ttl)
                        m.sections[s["sec"]].append(one)
                else:
                    m.sections[s["sec"]].append(rs)
    e = h["edns"]
    if e[0] == "edns":
        m.use_edns(e[1], e[2], e[3], options=make_options(e[4]), pad=h.get("pad", 0))
    m.set_rcode(h["rcode"])
    return m


def builder_add(m, s, rel):
    name = mkname(s["name"], rel)
    form = s["form"]
    rdtype = KIND_TYPE[s["kind"]]
    rds = rec_rdatas(s, rel, m.zone_rdclass)
    if form == "add":
        m.add(name, unlimbs(s["ttl"]), *rds)
    elif form == "del-rr":
        m.delete(name, *rds)
    elif form == "del-rrset":
        m.delete(name, rdtype)
    elif form == "del-name":
        m.delete(name)
    elif form == "rrset-exists":
        m.present(name, rdtype)
    elif form == "rrset-exists-value":
        m.present(name, *rds)
    elif form == "name-in-use":
        m.present(name)
    elif form == "rrset-absent":
        m.absent(name, rdtype)
    elif form == "name-not-in-use":
        m.absent(name)


def proj_message(m, rel):
    p = {"id": m.id, "flags": int(m.flags), "rcode": int(m.rcode()), "opcode": int(m.opcode()), "edns": m.edns,
         "eflags": limbs(int(m.ednsflags)), "payload": m.payload,
         "options": [[int(o.otype), list(o.to_wire())] for o in m.options],
         "sections": [[proj_rrset(rs, rel) for rs in sec] for sec in m.sections]}
    return p


def high_level(script, rel, mode, variants=False):
    e = {"op": "msg", "mode": mode}
    try:
        m = build_message(script, rel, mode)
        e["orig"] = proj_message(m, rel)
        # explicit limit: a message built with use_edns() would otherwise be limited to the payload it advertises
        wire = m.to_wire(max_size=65535, want_shuffle=False)
        e["wire"] = list(wire)
        # TCP framing: 2-octet length + the same message
        e["wirep"] = list(m.to_wire(max_size=65535, want_shuffle=False, prepend_length=True))
        xfr = bool(script[0].get("xfr"))      # zone-transfer style content is parsed the way dns.query.xfr parses it
        m2 = dns.message.from_wire(wire, origin=ORIGIN if rel else None, xfr=xfr)
        e["parsed"] = proj_message(m2, rel)
        e["eq"] = bool(m == m2) and bool(m2 == m)
        e["cls2"] = type(m2).__name__
        e["eqn"] = _norm(e["orig"]["sections"], True) == _norm(e["parsed"]["sections"], False)
        # re-render of the PARSED message with default arguments (no explicit limit)
        e["wire2"] = list(m2.to_wire(want_shuffle=False))
        if variants:
            org = ORIGIN if rel else None
            m3 = dns.message.from_wire(wire, origin=org, one_rr_per_rrset=True)
            m4 = dns.message.from_wire(wire + b"\x00\x07junk", origin=org, ignore_trailing=True)
            m5 = dns.message.from_wire(wire, origin=org, question_only=True)
            m6 = dns.message.from_wire(wire, origin=org, continue_on_error=True)
            try:
                m7 = dns.message.from_wire(wire, origin=org, raise_on_truncation=True)
                trunc = False
            except dns.message.Truncated as tex:
                m7 = tex.message()
                trunc = True
            if rel:     # origin passed as an argument instead of being an attribute of the message
                m.origin = None
                wireo = list(m.to_wire(origin=ORIGIN, max_size=65535, want_shuffle=False))
                m.origin = ORIGIN
            else:
                wireo = list(wire)
            e["var"] = {"coe": proj_message(m6, rel), "nerr": len(m6.errors), "rot": proj_message(m7, rel), "trunc": trunc,
                        "wireo": wireo, "onerr": proj_message(m3, rel), "wire1": list(m3.to_wire(want_shuffle=False)),
                        "trail": proj_message(m4, rel), "qonly": proj_message(m5, rel),
                        "wirep2": list(m2.to_wire(want_shuffle=False, prepend_length=True))}
        e["res"] = "ok"
    except Exception as ex:  # recorded, judged by the trace specification
        e["res"] = "err"
        e["exc"] = type(ex).__name__ + ": " + str(ex)[:100]
        for k in ("orig", "parsed"):
            e.setdefault(k, {"id": 0, "flags": 0, "rcode": 0, "opcode": 0, "edns": -1, "eflags": [0, 0], "payload": 0,
                             "options": [], "sections": [[], [], [], []]})
        for k in ("wire", "wire2", "wirep"):
            e.setdefault(k, [])
        e.pop("var", None)
        e.setdefault("eq", False)
        e.setdefault("cls2", "")
    return e


def _norm(sections, fix):
    """classification aid only: sections with names lower-cased and (fix) metaclass record sets
    rewritten into the parser's representation (zone class + deleting)"""
    out = []
    zc = sections[0][0]["cls"] if sections[0] else 1
    for si, sec in enumerate(sections):
        o = []
        for rs in sec:
            r = dict(rs)
            r["name"] = [[c + 32 if 65 <= c <= 90 else c for c in l] for l in rs["name"]]
            r["rds"] = [[c + 32 if 65 <= c <= 90 else c for c in rd] for rd in rs["rds"]]
            if fix and si in (1, 2) and r["cls"] in (254, 255):
                r["del"] = r["del"] or r["cls"]
                r["cls"] = zc
            o.append(r)
        out.append(o)
    return out


def code_traces():
    """dns.rcode / dns.opcode flag packing on their whole domains (4096 rcodes, 16 opcodes)"""
    import dns.rcode
    hdr = {"op": "hdr", "id": 1, "opcode": 0, "bits": 0, "rcode": 0, "origin": False, "edns": ["none"], "pad": 0, "zcls": 1,
           "max": 65535}
    traces = []
    for lo in range(0, 4096, 256):
        ev = [{"op": "new", "id": 1, "flags": 0, "pos": 12, "table": [], "counts": [0, 0, 0, 0], "section": 0,
               "max": 65535, "reserved": 0}]
        for rc in range(lo, lo + 256):
            v, evalue = dns.rcode.to_flags(rc)
            back = int(dns.rcode.from_flags(v | 0x8180, evalue | 0x00018000))
            ev.append({"op": "rc", "rc": rc, "v": v, "ev": limbs(evalue), "back": back})
        if lo == 0:
            for oc in range(16):
                f = dns.opcode.to_flags(oc)
                ev.append({"op": "oc", "oc": oc, "f": f, "back": int(dns.opcode.from_flags(f | 0x87FF))})
        traces.append({"tid": "codes%d" % lo, "cmp": probe_cmp(), "rel": False, "hdr": hdr, "mode": "codes", "ev": ev})
    return traces


_CMP = None


def probe_cmp_cached():
    global _CMP
    if _CMP is None:
        _CMP = probe_cmp()
    return _CMP


def run_job(job):
    """job = (tid, script, mode)"""
    global _CMP
    tid, script, mode = job[:3]
    variants = len(job) > 3 and job[3]
    try:
        if _CMP is None:
            _CMP = probe_cmp()
        rel = bool(script[0]["origin"])
        ev = low_level(script, rel, entry="rdataset" if mode == "lowrds" else "rrset")
        if mode not in ("low", "lowrds"):
            ev.append(high_level(script, rel, mode, variants))
        return {"tid": tid, "cmp": _CMP, "rel": rel, "hdr": script[0], "mode": mode, "ev": ev}
    except Exception as ex:
        return {"tid": tid, "cmp": {"NS": [True, True], "SOA": [True, True], "SRV": [True, True], "RRSIG": [False, False]},
                "rel": False, "hdr": script[0], "mode": mode, "ev": [{"op": "crash", "id": 0, "flags": 0, "max": 0, "exc": type(ex).__name__ + ": " + str(ex)[:200]}]}
