"""X06b driver: replay a history (from Gen_MsgHeader) on real dns.message objects:
make_query(arguments), then calls on the current message; "wire" replaces the current
message by from_wire(to_wire()), "make_response" by the response made for it.  After every
call the header / EDNS state is projected.  Only drives and projects; Trace_MsgHeader judges."""
import dns.edns
import dns.flags
import dns.message
import dns.name
import dns.opcode
import dns.rcode
import dns.tsig

KEY = dns.tsig.Key("key.", b"0123456789abcdef0123456789abcdef", "hmac-sha256")
QNAME = "example."
_OPT = {
    "NSID": lambda: dns.edns.NSIDOption(b"x06"),
    "COOKIE": lambda: dns.edns.CookieOption(b"12345678", b""),
    "PAD": lambda: dns.edns.GenericOption(dns.edns.OptionType.PADDING, b"\x00\x00"),
}


def make_options(ids):
    return [_OPT[i]() for i in ids]


def project_option(o):
    t = int(o.otype)
    if t == 12:
        return "PAD"          # any amount of padding
    for k in ("NSID", "COOKIE"):
        ref = _OPT[k]()
        if t == int(ref.otype):
            return k if o.to_wire() == ref.to_wire() else "?" + k
    return "?%d" % t


def project(msg):
    ef = int(msg.ednsflags)
    return {
        "cls": type(msg).__name__,
        "id": int(msg.id),
        "flags": int(msg.flags),
        "opcode": (int(msg.flags) >> 11) & 15,
        "edns": int(msg.edns),
        "ext": (ef >> 24) & 0xFF,
        "ver": (ef >> 16) & 0xFF,
        "z": ef & 0xFFFF,
        "payload": int(msg.payload),
        "options": [project_option(o) for o in msg.options],
        "reqpay": int(msg.request_payload),
        "pad": int(msg.pad),
        "tsig": bool(msg.had_tsig),
        "rcode": int(msg.rcode()),
    }


BAD_STATE = {"cls": "PROJECTION-FAILED", "id": -1, "flags": -1, "opcode": -1, "edns": -9, "ext": -1, "ver": -1, "z": -1,
             "payload": -1, "options": [], "reqpay": -1, "pad": -1, "tsig": False, "rcode": -1}


def call(fn):
    try:
        return "ok", "", fn()
    except BaseException as ex:  # noqa: BLE001 - every outcome is an event
        return "err", type(ex).__name__, None


def ednsflags_of(ext, ver, z):
    return (ext << 24) | (ver << 16) | z


def do_make_query(a):
    kw = {}
    if a["ue"] == -1:
        kw["use_edns"] = False if a["id"] % 2 else -1
    elif a["ue"] >= 0:
        kw["use_edns"] = a["ue"]
    if a["hasef"]:
        kw["ednsflags"] = ednsflags_of(a["ext"], 0, a["z"])
    if a["haspl"]:
        kw["payload"] = a["payload"]
    if a["hasrp"]:
        kw["request_payload"] = a["reqpay"]
    if a["hasops"]:
        kw["options"] = make_options(a["options"])
    if a["pad"]:
        kw["pad"] = a["pad"]
    if a["dnssec"]:
        kw["want_dnssec"] = True
    if a["flags"] != 256:
        kw["flags"] = a["flags"]
    return dns.message.make_query(QNAME, "SOA", id=a["id"], **kw)


def do_use_edns(msg, e):
    sp = e["sp"]
    if sp in ("none", "false", "neg"):
        lvl = {"none": None, "false": False, "neg": -1}[sp]
        if e["junk"]:   # "other parameters are ignored"
            return msg.use_edns(lvl, dns.flags.DO, 4096, 512, make_options(["NSID"]), 128)
        return msg.use_edns(lvl)
    if sp == "default":
        return msg.use_edns()
    lvl = True if sp == "true" else e["lvl"]
    kw = {"ednsflags": ednsflags_of(e["ext"], 0, e["z"]), "payload": e["pl"], "options": make_options(e["ops"]), "pad": e["pd"]}
    if e["hasrp"]:
        kw["request_payload"] = e["rp"]
    return msg.use_edns(lvl, **kw)


def roundtrip(msg):
    wire = msg.to_wire()
    signed = bool(msg.had_tsig)
    parsed = dns.message.from_wire(wire, keyring=KEY if signed else None, request_mac=msg.request_mac)
    return parsed


def probe(msg):
    out = []
    r = dns.message.make_response(msg)
    out.append(bool(msg.is_response(r)))
    r = dns.message.make_response(msg)
    r.id = (r.id + 1) & 0xFFFF
    out.append(bool(msg.is_response(r)))
    r = dns.message.make_response(msg)
    r.flags &= ~int(dns.flags.QR)
    out.append(bool(msg.is_response(r)))
    r = dns.message.make_response(msg)
    r.set_opcode(((int(msg.flags) >> 11) + 1) & 15)
    out.append(bool(msg.is_response(r)))
    out.append(bool(msg.is_response(msg)))
    return out


def replay(hist, tid):
    trace = {"tid": tid, "ev": []}
    ev = trace["ev"]
    a = hist[0]["a"]
    res, exc, msg = call(lambda: do_make_query(a))
    rs, _, st = call(lambda: project(msg))
    ev.append({"op": "make_query", "a": a, "res": res, "exc": exc, "st": st if rs == "ok" else BAD_STATE})
    if msg is None:
        return trace
    for e in hist[1:]:
        op = e["op"]
        rec = dict(e)
        if op == "use_edns":
            res, exc, _ = call(lambda: do_use_edns(msg, e))
        elif op == "want_dnssec":
            res, exc, _ = call((lambda: msg.want_dnssec()) if e["sp"] == "default" else (lambda: msg.want_dnssec(e["b"])))
        elif op == "set_rcode":
            v = e["v"]
            if e["sp"] == "enum":
                res, exc, _ = call(lambda: msg.set_rcode(dns.rcode.Rcode.make(v)))
            else:
                res, exc, _ = call(lambda: msg.set_rcode(v))
        elif op == "set_opcode":
            res, exc, _ = call(lambda: msg.set_opcode(e["o"]))
        elif op == "flags":
            res, exc, _ = call(lambda: setattr(msg, "flags", e["f"]))
        elif op == "ednsflags":
            res, exc, _ = call(lambda: setattr(msg, "ednsflags", ednsflags_of(e["ext"], e["ver"], e["z"])))
        elif op == "use_tsig":
            res, exc, _ = call(lambda: msg.use_tsig(KEY))
        elif op == "wire":
            res, exc, parsed = call(lambda: roundtrip(msg))
            if res == "ok":
                msg = parsed
        elif op == "make_response":
            kw = {"recursion_available": e["ra"], "our_payload": e["ourpay"], "fudge": e["fudge"]}
            if e["haspad"]:
                kw["pad"] = e["padarg"]
            query = msg
            res, exc, resp = call(lambda: dns.message.make_response(query, **kw))
            rec["tsiginfo"] = ["", 0, 0, False]
            if res == "ok":
                msg = resp
                if resp.tsig is not None:
                    rec["tsiginfo"] = [resp.keyname.to_text(), int(resp.tsig[0].fudge), int(resp.tsig_error),
                                       resp.request_mac == query.mac]
        elif op == "is_response":
            res, exc, val = call(lambda: probe(msg))
            rec["val"] = val if res == "ok" else []
        else:
            raise ValueError("unknown op %r" % op)
        rs, _, st = call(lambda: project(msg))
        rec.update(res=res, exc=exc, st=st if rs == "ok" else BAD_STATE)
        ev.append(rec)
        if op == "wire" and res == "ok" and msg.had_tsig:
            # the application keeps signing what it forwards (not an event: the model's tsig stays TRUE)
            call(lambda: msg.use_tsig(KEY))
    return trace


def run_job(job):
    hist, tid = job
    try:
        return replay(hist, tid)
    except Exception as ex:  # a driver failure is reported as an unmatched trace
        return {"tid": tid, "ev": [{"op": "driver-error", "exc": repr(ex)}]}
