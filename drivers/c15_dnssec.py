"""C15 driver: runs the key-free DNSSEC computations of the real dnspython on one input and
records one event per specification operator (arguments + output bytes / exception class).
It only drives and projects; Trace_Dnssec recomputes every output with the operators of
specs/Dnssec.tla.  Preimages that get hashed come from TLC (Pre_Dnssec), the driver only
applies hashlib to them (hashlib is the trusted base of the digest clauses).

Octet strings travel as lists of 0..255, names as lists of labels (absolute, no root
label), RDATA as lists of segments ["b", octets] / ["n", name]."""
import hashlib
import struct

import dns.dnssec
import dns.exception
import dns.name
import dns.rdata
import dns.rdataclass
import dns.rdataset
import dns.rdatatype
import dns.rdtypes.ANY.NSEC
import dns.rdtypes.util
import dns.rrset
import dns.versioned
import dns.zone

HASHES = {1: hashlib.sha1, 2: hashlib.sha256, 4: hashlib.sha384}
ZHASHES = {1: hashlib.sha384, 2: hashlib.sha512}


def nm(labels):
    return dns.name.Name([bytes(x) for x in labels] + [b""])


def js(name, origin=None):
    """absolute name -> list of labels without the root label"""
    if not name.is_absolute():
        name = name.derelativize(origin)
    return [list(x) for x in name.labels[:-1]]


def name_wire(labels):
    return b"".join(bytes([len(x)]) + bytes(x) for x in labels) + b"\x00"


def seg_wire(segs):
    return b"".join(name_wire(s[1]) if s[0] == "n" else bytes(s[1]) for s in segs)


def mk_rdata(c, t, segs, origin=None):
    """RDATA from its plain (uncompressed, case-preserving) wire form; with an origin the
    embedded names below it become relative, as they are in a relativized zone."""
    w = seg_wire(segs)
    return dns.rdata.from_wire(c, t, w, 0, len(w), origin)


def outcome(fn, proj=list):
    try:
        return ["ok", proj(fn())]
    except Exception as ex:  # noqa: BLE001 - the class is the observation
        return ["err", type(ex).__name__]


def u32(b):
    return struct.unpack("!I", bytes(b))[0]


# ------------------------------------------------------------------ canonical forms
def ev_canon(j):
    org = nm(j["org"]) if j.get("org") is not None and j["mode"] == "rel" else None

    def run():
        rd = mk_rdata(j["c"], j["t"], j["segs"], org)
        return rd.to_digestable(org)

    return [{"op": "canon", "t": j["t"], "c": j["c"], "segs": j["segs"], "mode": j["mode"], "out": outcome(run)}]


def ev_ncanon(j):
    n = nm(j["n"])
    if j["mode"] == "rel":
        org = nm(j["org"])
        return [{"op": "ncanon", "n": j["n"], "mode": "rel",
                 "out": outcome(lambda: n.relativize(org).to_digestable(org)),
                 "out2": outcome(lambda: n.relativize(org).derelativize(org).canonicalize().to_wire())}]
    return [{"op": "ncanon", "n": j["n"], "mode": "abs", "out": outcome(n.to_digestable),
             "out2": outcome(lambda: n.canonicalize().to_wire())}]


# ------------------------------------------------------------------ signature input
def ev_sig(j):
    sg = j["sg"]
    rel = j["mode"] in ("rel", "reltuple")
    org = nm(j["org"]) if rel else None

    def run():
        owner = nm(j["owner"])
        if rel:
            owner = owner.relativize(org)
        rrset = dns.rrset.RRset(owner, j["c"], j["t"])
        for segs in j["rrs"]:
            rrset.add(mk_rdata(j["c"], j["t"], segs, org), 77)
        pre = bytes(sg["cov"]) + bytes([sg["alg"], sg["labels"]]) + bytes(sg["ottl"]) + bytes(sg["exp"]) \
            + bytes(sg["inc"]) + bytes(sg["tag"])
        w = pre + name_wire(sg["signer"]) + b"AZaz"
        rrsig = dns.rdata.from_wire(j["c"], dns.rdatatype.RRSIG, w, 0, len(w), org)
        target = rrset
        if j["mode"] in ("tuple", "reltuple"):
            rds = dns.rdataset.Rdataset(j["c"], j["t"])
            rds.update(rrset)
            target = (owner, rds)
        return dns.dnssec._make_rrsig_signature_data(target, rrsig, org)

    def order():
        # Rdata ordering is documented as the DNSSEC ordering when all names are absolute
        if rel:
            return []
        return [list(rd.to_digestable()) for rd in sorted(mk_rdata(j["c"], j["t"], segs) for segs in j["rrs"])]

    return [{"op": "sig", "t": j["t"], "c": j["c"], "owner": j["owner"], "rrs": j["rrs"], "sg": sg, "mode": j["mode"],
             "org": j.get("org", []), "out": outcome(run), "srt": outcome(order)}]


# ------------------------------------------------------------------ key tag, DS, NSEC3
def ev_keytag(j):
    w = bytes(j["rd"])

    def tag(t):
        return lambda: dns.dnssec.key_id(dns.rdata.from_wire(1, t, w, 0, len(w)))

    return [{"op": "keytag", "rd": j["rd"], "out": outcome(tag(dns.rdatatype.DNSKEY), int),
             "out2": outcome(tag(dns.rdatatype.CDNSKEY), int)}]


def text_of(labels):
    return ".".join("".join(chr(c) for c in x) for x in labels)


def ds_owner_arg(j):
    """the owner in the argument form of the job: (argument, origin).  Forms: name = absolute Name; text = absolute
    text; relname / reltext = the first `cut` labels as a relative Name / relative text ('@' when cut = 0) plus
    origin= the remaining labels."""
    form = j.get("form", "name")
    owner = j["owner"]
    if form == "name":
        return nm(owner), None
    if form == "text":
        return (text_of(owner) + ".") if owner else ".", None
    cut = j["cut"]
    rel, org = owner[:cut], nm(owner[cut:])
    if form == "relname":
        return dns.name.Name([bytes(x) for x in rel]), org
    return (text_of(rel) if rel else "@"), org


def ev_ds(j):
    w = bytes(j["key"])
    owner, org = ds_owner_arg(j)
    dt = j["dt"]
    key = dns.rdata.from_wire(1, dns.rdatatype.DNSKEY, w, 0, len(w))
    ckey = dns.rdata.from_wire(1, dns.rdatatype.CDNSKEY, w, 0, len(w))
    pre = bytes(j["pre"])
    dig = HASHES[dt](pre).digest()
    algname = {1: "SHA1", 2: "sha256", 4: "SHA384"}[dt]

    def keyset():
        rds = dns.rdataset.Rdataset(1, dns.rdatatype.DNSKEY)
        rds.add(key, 300)
        return rds

    def wires(rds):
        return sorted(list(r.to_wire()) for r in rds)

    return [{"op": "ds", "owner": j["owner"], "key": j["key"], "dt": dt, "pre": j["pre"], "dig": list(dig),
             "form": j.get("form", "name"), "cut": j.get("cut", 0),
             "ds": outcome(lambda: dns.dnssec.make_ds(owner, key, dt, org, policy=dns.dnssec.allow_all_policy).to_wire()),
             "dsc": outcome(lambda: dns.dnssec.make_ds(owner, ckey, algname, origin=org, validating=True).to_wire()),
             "cds": outcome(lambda: dns.dnssec.make_cds(owner, key, dt, org).to_wire()),
             "dsset": outcome(lambda: wires(dns.dnssec.make_ds_rdataset((owner, keyset()), {algname}, org))),
             "cdsset": outcome(lambda: wires(dns.dnssec.dnskey_rdataset_to_cds_rdataset(owner, keyset(), algname, org)))}]


def ev_nsec3(j):
    salt = bytes(j["salt"])
    pres = [j["pre"]]
    digs = [list(hashlib.sha1(bytes(j["pre"])).digest())]
    for _ in range(j["iter"]):
        p = bytes(digs[-1]) + salt
        pres.append(list(p))
        digs.append(list(hashlib.sha1(p).digest()))
    arg = salt.hex() if j["mode"] == "hex" else (None if (j["mode"] == "none" and not salt) else salt)
    return [{"op": "nsec3", "n": j["n"], "salt": j["salt"], "iter": j["iter"], "pres": pres, "digs": digs,
             "out": outcome(lambda: dns.dnssec.nsec3_hash(nm(j["n"]), arg, j["iter"], "SHA1" if j["mode"] == "hex" else 1),
                            lambda s: [ord(ch) for ch in s])}]


def ev_bitmap(j):
    def run():
        bm = dns.rdtypes.util.Bitmap.from_rdtypes([dns.rdatatype.RdataType.make(t) for t in j["order"]])
        rd = dns.rdtypes.ANY.NSEC.NSEC(1, dns.rdatatype.NSEC, dns.name.root, bm.windows)
        return rd.to_wire()[1:]

    return [{"op": "bitmap", "types": j["types"], "out": outcome(run)}]


# ------------------------------------------------------------------ zones
def build_zone(z, rel, cls=dns.zone.Zone):
    origin = nm(z["origin"])
    zone = cls(origin, dns.rdataclass.IN, relativize=rel)
    with zone.writer() as txn:
        for rr in z["rrs"]:
            owner = nm(rr["o"])
            rd = mk_rdata(rr["c"], rr["t"], rr["segs"], origin if rel else None)
            if rel:
                owner = owner.relativize(origin)
            txn.add(owner, u32(rr["ttl"]), rd)
    return zone, origin


def ev_nsec(j):
    z = j["z"]
    ev = {"op": "nsec", "z": z, "rel": j["rel"], "mode": j["mode"], "chain": [], "signed": []}
    try:
        zone, origin = build_zone(z, j["rel"], dns.versioned.Zone if j["mode"] == "versioned" else dns.zone.Zone)
        offered = []

        def signer(txn, rrset):
            offered.append([js(rrset.name, origin), int(rrset.rdtype), len(rrset)])

        if j["mode"] == "txn":
            with zone.writer() as txn:
                dns.dnssec.sign_zone(zone, txn=txn, add_dnskey=False, rrset_signer=signer)
        else:
            dns.dnssec.sign_zone(zone, add_dnskey=False, rrset_signer=signer)
        chain = []
        with zone.reader() as txn:
            for name in txn.iterate_names():
                rds = txn.get(name, dns.rdatatype.NSEC)
                if rds is None:
                    continue
                for rd in rds:
                    w = rd.to_wire(origin=origin)
                    nxt = js(rd.next, origin)
                    chain.append([js(name, origin), nxt, list(w[len(name_wire(nxt)):]), rds.ttl])
        ev["chain"] = sorted(chain)
        ev["signed"] = offered
        ev["res"] = ["ok", "-"]
    except Exception as ex:  # noqa: BLE001
        ev["res"] = ["err", type(ex).__name__]
    return [ev]


def ev_zonemd(j):
    z = j["z"]
    alg = j["alg"]
    pre = bytes(j["pre"])
    dig = ZHASHES[alg](pre).digest()
    ev = {"op": "zonemd", "z": z, "rel": j["rel"], "alg": alg, "pre": j["pre"], "dig": list(dig)}
    evs = [ev]
    zmd = None
    try:
        zone, origin = build_zone(z, j["rel"])
        zmd = zone.compute_digest(alg)
        ev["out"] = ["ok", list(zmd.to_wire())]
    except Exception as ex:  # noqa: BLE001
        ev["out"] = ["err", type(ex).__name__]
        return evs
    ev["self"] = verdict(lambda: zone.verify_digest(zmd))
    # the digest placed at the apex: verify_digest() then takes it from the zone
    try:
        with zone.writer() as txn:
            txn.replace(origin if not j["rel"] else dns.name.empty, 300, zmd)
        ev["placed"] = verdict(zone.verify_digest)
    except Exception as ex:  # noqa: BLE001
        ev["placed"] = "err:" + type(ex).__name__
    for z2 in j.get("muts", []):
        try:
            zone2, _ = build_zone(z2, j["rel"])
            v = verdict(lambda: zone2.verify_digest(zmd))
        except Exception as ex:  # noqa: BLE001
            v = "err:" + type(ex).__name__
        evs.append({"op": "zmut", "z2": z2, "verdict": v})
    return evs


def verdict(fn):
    try:
        fn()
        return "accept"
    except dns.zone.DigestVerificationFailure:
        return "reject"
    except Exception as ex:  # noqa: BLE001
        return "err:" + type(ex).__name__


EVENTS = {"canon": ev_canon, "ncanon": ev_ncanon, "sig": ev_sig, "keytag": ev_keytag, "ds": ev_ds, "nsec3": ev_nsec3,
          "bitmap": ev_bitmap, "nsec": ev_nsec, "zonemd": ev_zonemd}


def run_job(job):
    """job = dict with tid, k (kind) and the inputs -> trace"""
    try:
        evs = EVENTS[job["k"]](job)
    except Exception as ex:  # noqa: BLE001 - a driver crash is an event nobody matches
        evs = [{"op": "crash", "kind": job.get("k", "?"), "error": "%s: %s" % (type(ex).__name__, ex)}]
    return {"tid": job["tid"], "ev": evs}
