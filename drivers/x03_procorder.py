"""X03b driver: builds a real rdataset for an abstract one (records <<a, b, w>>), calls
processing_order() once per seed (random.seed(seed) first) and records the order as a
sequence of record ids.  Drives and projects only - no verdicts."""
import random
import signal

import dns.immutable
import dns.name
import dns.rdata
import dns.rdataclass
import dns.rdataset
import dns.rdatatype
import dns.rrset

KEY = "AQNRU3mG7TVTO2BkR47usntb102uFJtugbo6BSGvgqt4AQ=="
# type -> (kind of the specification, text of record number i with order a, preference b, weight w)
TYPES = {
    "MX": ("priority", lambda i, a, b, w: "%d m%d.example." % (b, i)),
    "KX": ("priority", lambda i, a, b, w: "%d m%d.example." % (b, i)),
    "RT": ("priority", lambda i, a, b, w: "%d m%d.example." % (b, i)),
    "PX": ("priority", lambda i, a, b, w: "%d a.example. x%d.example." % (b, i)),
    "NAPTR": ("priority", lambda i, a, b, w: '%d %d "u" "e2u+sip" "" r%d.example.' % (a, b, i)),
    "SVCB": ("priority", lambda i, a, b, w: "%d t%d.example." % (b, i)),
    "HTTPS": ("priority", lambda i, a, b, w: "%d t%d.example." % (b, i)),
    "SRV": ("weighted", lambda i, a, b, w: "%d %d 80 t%d.example." % (b, w, i)),
    "URI": ("weighted", lambda i, a, b, w: '%d %d "http://h%d.example/"' % (b, w, i)),
    # no processing order defined by the type's specification: any permutation
    "A": ("shuffle", lambda i, a, b, w: "192.0.2.%d" % i),
    "TXT": ("shuffle", lambda i, a, b, w: '"t%d"' % i),
    "AFSDB": ("shuffle", lambda i, a, b, w: "%d m%d.example." % (b, i)),
    # types whose RFC gives the field "lower is preferred" semantics but whose class defines
    # no order: hard kind "shuffle"; judged a second time as "priority" for the drift counter
    "LP": ("shuffle", lambda i, a, b, w: "%d l%d.example." % (b, i)),
    "NID": ("shuffle", lambda i, a, b, w: "%d 0014:4fff:ff20:ee0%d" % (b, i)),
    "L32": ("shuffle", lambda i, a, b, w: "%d 10.1.2.%d" % (b, i)),
    "L64": ("shuffle", lambda i, a, b, w: "%d 2001:0db8:1140:100%d" % (b, i)),
    # (their precedence field is 8 bits wide: the abstract 65535 stands for 255)
    "IPSECKEY": ("shuffle", lambda i, a, b, w: "%d 1 2 192.0.2.%d %s" % (min(b, 255), i, KEY)),
    "AMTRELAY": ("shuffle", lambda i, a, b, w: "%d 0 1 192.0.2.%d" % (min(b, 255), i)),
}
RFCPREF = ("LP", "NID", "L32", "L64", "IPSECKEY", "AMTRELAY")
CONTAINERS = ("rdataset", "rrset", "immutable")


def applicable(rtype, recs):
    """Can this type carry the abstract records?  (a only exists in NAPTR, w only in SRV/URI,
    b does not exist in A/TXT.)"""
    if any(a for a, b, w in recs) and rtype != "NAPTR":
        return False
    if any(w for a, b, w in recs) and TYPES[rtype][0] != "weighted":
        return False
    if rtype in ("A", "TXT") and any(b for a, b, w in recs):
        return False
    if rtype in ("IPSECKEY", "AMTRELAY"):   # 8-bit field: two different abstract values must stay different
        bs = {b for a, b, w in recs}
        if len({min(b, 255) for b in bs}) != len(bs):
            return False
    return True


def build(rtype, recs, container, insertion):
    rdt = dns.rdatatype.from_text(rtype)
    rds = {}
    for i, (a, b, w) in enumerate(recs, start=1):
        rds[i] = dns.rdata.from_text(dns.rdataclass.IN, rdt, TYPES[rtype][1](i, a, b, w))
    if container == "rrset":
        s = dns.rrset.RRset(dns.name.from_text("o.example."), dns.rdataclass.IN, rdt)
    else:
        s = dns.rdataset.Rdataset(dns.rdataclass.IN, rdt)
    for i in insertion:
        s.add(rds[i], 300)
    if container == "immutable":
        s = dns.rdataset.ImmutableRdataset(s)
    return s, rds


def replay(job):
    tid, rtype, kind, recs, container, seeds, iseed = (job[k] for k in ("tid", "rtype", "kind", "recs", "container", "seeds", "iseed"))
    insertion = list(range(1, len(recs) + 1))
    random.Random(iseed).shuffle(insertion)
    s, rds = build(rtype, recs, container, insertion)
    before = list(s)
    ev = []
    for seed in seeds:
        random.seed(seed)
        got = s.processing_order()
        out = []
        for r in got:
            ids = [i for i, x in rds.items() if x is r or x == r]
            out.append(ids[0] if len(ids) == 1 else 0)   # 0 = not a record of the rdataset
        ev.append({"op": "order", "seed": seed, "out": out, "same": list(s) == before and len(s) == len(recs)})
    ev.append({"op": "end"})
    return {"tid": tid, "rtype": rtype, "kind": kind, "container": container, "recs": [list(r) for r in recs],
            "insertion": insertion, "ev": ev}


class Budget(BaseException):
    pass


def _budget(signum, frame):
    raise Budget("CPU budget of %ds exceeded" % CPU_BUDGET_S)


CPU_BUDGET_S = 5


def run_job(job):
    # CPU-time budget (not wall clock): a call that never returns becomes a driver-error event
    signal.signal(signal.SIGVTALRM, _budget)
    signal.setitimer(signal.ITIMER_VIRTUAL, CPU_BUDGET_S)
    try:
        r = replay(job)
        signal.setitimer(signal.ITIMER_VIRTUAL, 0)
        return r
    except (Exception, Budget) as x:  # a driver failure is an event nobody matches
        signal.setitimer(signal.ITIMER_VIRTUAL, 0)
        return {"tid": job["tid"], "rtype": job["rtype"], "kind": job["kind"], "container": job["container"],
                "recs": [list(r) for r in job["recs"]], "insertion": [], "ev": [{"op": "driver-error", "exc": repr(x)}]}
