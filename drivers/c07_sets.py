"""C07 driver.  Part 1: replay a script of set calls (from Gen_SetAlgebra) on dns.set.Set,
dns.rdataset.Rdataset, dns.rrset.RRset (and dns.rdataset.ImmutableRdataset after a
"freeze" / for frozen initial handles) and record, after every call, the ordered item
list, TTL, covered type and mutability of EVERY handle plus the result of every query.
Part 2: build pairs of records from field lists and record ==, !=, hash equality, the
four order comparisons and the to_digestable() octets.  Part 3: for dns.name.Name and an
instance of every rdata class, try to rebind / delete every slot through the normal
attribute protocol and describe the kind of every field value.
Only drives and projects; Trace_SetAlgebra / Trace_ValueObject judge."""
import array
import collections.abc
import copy
import enum
import operator

import dns.immutable
import dns.name
import dns.rdata
import dns.rdataclass
import dns.rdataset
import dns.rdatatype
import dns.rdtypes.txtbase
import dns.rrset
import dns.set

OWNER = dns.name.from_text("owner.example.")
LAYERS = ("set", "rds", "rrset")


# ------------------------------------------------------------------------ part 1: items
class Item:
    """Stand-in element for dns.set.Set: equality and hash by class, like records whose
    canonical encodings agree; `v` is the spelling."""

    __slots__ = ("key", "v")

    def __init__(self, key, v):
        self.key = key
        self.v = v

    def __eq__(self, other):
        return isinstance(other, Item) and self.key == other.key

    def __ne__(self, other):
        return not self.__eq__(other)

    def __hash__(self):
        return hash(self.key)

    def __repr__(self):
        return "Item(%r,%r)" % (self.key, self.v)


def record_text(rdtype, covers, c, v):
    """Text of the real record standing for item (c, v) of a kind: v = 2 is the same
    record with the embedded name in upper case (equal under RFC 4034 6.2)."""
    up = v == 2

    def n(s):
        return s.upper() if up else s

    if rdtype == "MX":
        return "%d %s" % (10 * c, n("mail%d.example." % c))
    if rdtype == "NS":
        return n("ns%d.example." % c)
    if rdtype == "CNAME":
        return n("target%d.example." % c)
    if rdtype == "SOA":
        return "%s %s %d 3600 600 86400 300" % (n("ns.example."), n("admin.example."), c)
    if rdtype == "A":
        return "10.0.0.%d" % c
    if rdtype == "RRSIG":
        return "%s 8 2 300 20300101000000 20200101000000 %d %s AAAA" % (covers, 1000 + c, n("example."))
    raise ValueError("no record text for %s" % rdtype)


# World "dyn": the model type "DYN" is an unassigned type code, FRESH for every history
# (run-time registrations and anything cached per type code are process-global; a code never
# used before in this interpreter is as good as a fresh interpreter).
_DYN = {"next": 33000, "code": None}  # 33001..64999: unassigned, not private-use-reserved by anything here


def fresh_dyn_code():
    _DYN["next"] += 1
    if _DYN["next"] >= 65000:
        raise RuntimeError("out of fresh type codes")
    _DYN["code"] = _DYN["next"]
    return _DYN["code"]


def rdtype_of(name):
    if name == "DYN":
        return dns.rdatatype.RdataType.make(_DYN["code"])
    return dns.rdatatype.from_text(name)


def dyn_wire(c):
    return bytes([1, 96 + c])  # one character-string


def make_item(layer, item):
    rc, rt, cv, c, v = item
    if layer == "set" or rc == "-":
        return Item((rc, rt, cv, c), v)
    if rt == "DYN":
        w = dyn_wire(c)
        if v == 1:  # always the RFC 3597 generic form
            return dns.rdata.GenericRdata(dns.rdataclass.from_text(rc), rdtype_of(rt), w)
        # spelling 2: parsed from wire when first used - the registered class once there is one
        return dns.rdata.from_wire(dns.rdataclass.from_text(rc), rdtype_of(rt), w, 0, len(w))
    if v == 3:  # the same record as spelling 1, held in its generic (RFC 3597) form
        return make_item(layer, (rc, rt, cv, c, 1)).to_generic()
    return dns.rdata.from_text(dns.rdataclass.from_text(rc), dns.rdatatype.from_text(rt), record_text(rt, cv, c, v))


def covers_of(text):
    return dns.rdatatype.NONE if text in ("NONE", "-") else dns.rdatatype.from_text(text)


def make_handle(layer, rec, real):
    if layer == "set":
        obj = dns.set.Set()
    else:
        rc = dns.rdataclass.from_text(rec["rdclass"])
        rt = rdtype_of(rec["rdtype"])
        if layer == "rds":
            obj = dns.rdataset.Rdataset(rc, rt, covers_of(rec["covers"]))
        else:
            obj = dns.rrset.RRset(OWNER, rc, rt, covers_of(rec["covers"]))
    for it in rec["items"]:
        obj.add(real[tuple(it)])
    if layer != "set":
        obj.ttl = rec["ttl"]
        if rec["frozen"]:
            obj = dns.rdataset.ImmutableRdataset(obj)
    return obj


def tf(fn):
    """0 = False, 1 = True, 2 = the query raised"""
    try:
        return 1 if fn() else 0
    except Exception:  # noqa: BLE001
        return 2


def project(layer, objs, index, universe):
    st = []
    for o in objs:
        try:
            items = [index.get(id(x), 0) for x in o]
        except Exception:  # noqa: BLE001
            items = [0]
        if layer == "set":
            st.append({"items": items, "ttl": 0, "covers": "-", "frozen": False})
        else:
            cv = o.covers
            st.append({"items": items, "ttl": int(o.ttl),
                       "covers": "NONE" if cv == dns.rdatatype.NONE else dns.rdatatype.to_text(cv),
                       "frozen": isinstance(o, dns.rdataset.ImmutableRdataset)})
    n = len(objs)
    if callable(universe):
        universe = universe()
    q = {"eq": [], "ne": [], "sub": [], "sup": [], "dis": [], "len": [], "has": [], "idx": []}
    for a in objs:
        q["eq"].append([tf(lambda: a == b) for b in objs])
        q["ne"].append([tf(lambda: a != b) for b in objs])
        q["sub"].append([tf(lambda: a.issubset(b)) for b in objs])
        q["sup"].append([tf(lambda: a.issuperset(b)) for b in objs])
        q["dis"].append([tf(lambda: a.isdisjoint(b)) for b in objs])
        try:
            q["len"].append(len(a))
        except Exception:  # noqa: BLE001
            q["len"].append(-1)
        q["has"].append([tf(lambda: u in a) for u in universe])
        try:
            q["idx"].append([index.get(id(a[k]), 0) for k in range(len(a))])
        except Exception:  # noqa: BLE001
            q["idx"].append([0])
    assert n == len(q["eq"])
    return st, q


_INPLACE = {
    ("union", "method"): lambda a, b: a.union_update(b),
    ("union", "op"): operator.ior,
    ("union", "op2"): operator.iadd,
    ("inter", "method"): lambda a, b: a.intersection_update(b),
    ("inter", "op"): operator.iand,
    ("diff", "method"): lambda a, b: a.difference_update(b),
    ("diff", "op"): operator.isub,
    ("sym", "method"): lambda a, b: a.symmetric_difference_update(b),
    ("sym", "op"): operator.ixor,
    ("update", "method"): lambda a, b: a.update(b),
    ("update", "list"): lambda a, b: a.update(list(b)),
}
_COPYING = {
    ("union", "method"): lambda a, b: a.union(b),
    ("union", "op"): operator.or_,
    ("union", "op2"): operator.add,
    ("inter", "method"): lambda a, b: a.intersection(b),
    ("inter", "op"): operator.and_,
    ("diff", "method"): lambda a, b: a.difference(b),
    ("diff", "op"): operator.sub,
    ("sym", "method"): lambda a, b: a.symmetric_difference(b),
    ("sym", "op"): operator.xor,
    ("copy", "method"): lambda a, b: a.copy(),
    ("copy", "op"): lambda a, b: copy.copy(a),
}


def replay_sets(script, layer, tid):
    init = script[0]["init"]
    universe_items = sorted(tuple(it) for it in script[0]["items"])
    dyn = any(it[1] == "DYN" for it in universe_items)
    if dyn:
        code = fresh_dyn_code()
    index = {}

    class Reals(dict):
        def __missing__(self, it):  # created at first use
            obj = make_item(layer, it)
            self[it] = obj
            index[id(obj)] = universe_items.index(it) + 1
            return obj

    real = Reals()
    for it in universe_items:
        if not (dyn and it[4] == 2):
            real[it]
    if dyn:  # membership probes are parsed anew for every projection
        def universe():
            return [dns.rdata.from_wire(dns.rdataclass.IN, code, dyn_wire(it[3]), 0, 2) for it in universe_items]
    else:
        universe = [real[it] for it in universe_items]
    objs = [make_handle(layer, rec, real) for rec in init]
    if layer == "set":
        init_log = [dict(rec, ttl=0, frozen=False) for rec in init]
    else:
        init_log = init
    trace = {"tid": tid, "layer": layer, "items": [list(it) for it in universe_items], "init": init_log, "ev": []}
    st, q = project(layer, objs, index, universe)
    trace["ev"].append({"op": "init", "st": st, "q": q})
    for e in script[1:]:
        op, a, sp = e["op"], e["a"], e["sp"]
        h, r, o = e["h"] - 1, e["r"] - 1, e["a"]["o"] - 1
        rec = {"op": op, "inplace": e["inplace"], "h": e["h"], "r": e["r"], "a": a, "sp": sp}
        recv, other = objs[h], objs[o]
        ret = 0
        fresh = 0
        res, exc = "ok", ""
        try:
            if op == "freeze":
                objs[h] = dns.rdataset.ImmutableRdataset(recv)
            elif op == "register":
                name = "DYN%d" % code
                dns.rdata.register_type(type(name, (dns.rdtypes.txtbase.TXTBase,), {}), code, name,
                                        is_singleton=bool(a["k"]))
            elif op == "build":
                seq = list(recv) + list(other)
                if layer == "set":
                    out = dns.set.Set(seq)
                elif layer == "rds":
                    out = dns.rdataset.from_rdata_list(a["ttl"], seq)
                else:
                    out = dns.rrset.from_rdata_list(OWNER, a["ttl"], seq)
                fresh = 1 if all(out is not x for x in objs) else 0
                objs[r] = out
            elif not e["inplace"]:
                out = _COPYING[(op, sp)](recv, other)
                fresh = 1 if all(out is not x for x in objs) else 0
                objs[r] = out
            elif op == "add":
                item = real[tuple(a["i"])]
                if a["ttl"] < 0:
                    recv.add(item)
                else:
                    recv.add(item, a["ttl"])
            elif op == "remove":
                recv.remove(real[tuple(a["i"])])
            elif op == "discard":
                recv.discard(real[tuple(a["i"])])
            elif op == "pop":
                ret = index.get(id(recv.pop()), 0)
            elif op == "clear":
                recv.clear()
            elif op == "delidx":
                del recv[a["k"]]
            elif op == "delslice":
                del recv[a["lo"]:a["hi"]]
            else:
                out = _INPLACE[(op, sp)](recv, other)
                if sp in ("op", "op2"):
                    objs[h] = out  # what  s op= t  does
        except Exception as ex:  # noqa: BLE001 - every outcome is an event
            res, exc = "err", type(ex).__name__
        st, q = project(layer, objs, index, universe)
        rec.update(res=res, exc=exc, ret=ret, fresh=fresh, st=st, q=q)
        trace["ev"].append(rec)
    return trace


def run_sets_job(job):
    script, layer, tid = job
    try:
        return replay_sets(script, layer, tid)
    except Exception as ex:  # a driver failure is an event nobody matches
        return {"tid": tid, "layer": layer, "items": [], "init": [], "ev": [{"op": "driver-error", "exc": repr(ex)}]}


# ------------------------------------------------------------------------ part 2: records
ORIGIN = dns.name.from_text("example.")


def wire_of(fields):
    out = bytearray()
    for f in fields:
        if f[0] == "n":
            for lab in f[1]:
                out.append(len(lab))
                out += bytes(lab)
            out.append(0)
        else:
            out += bytes(f[1])
    return bytes(out)


def build_record(rec):
    """rec = {cls, ty, f: fields, mode}: mode "wire" = parsed from the wire form of the
    fields, "text" = that record printed and parsed again, "rel" = printed and parsed
    with names relativized to ORIGIN, "generic" = the RFC 3597 generic form (to_generic())."""
    rdclass = dns.rdataclass.from_text(rec["cls"])
    rdtype = dns.rdatatype.from_text(rec["ty"])
    wire = wire_of(rec["f"])
    rd = dns.rdata.from_wire(rdclass, rdtype, wire, 0, len(wire))
    if rec["mode"] == "text":
        rd = dns.rdata.from_text(rdclass, rdtype, rd.to_text())
    elif rec["mode"] == "rel":
        rd = dns.rdata.from_text(rdclass, rdtype, rd.to_text(), origin=ORIGIN, relativize=True)
    elif rec["mode"] == "generic":
        rd = rd.to_generic()
    return rd


def cmp3(fn):
    try:
        return 1 if fn() else 0
    except Exception:  # noqa: BLE001
        return 2


def digest(rd):
    try:
        return [1, list(rd.to_digestable())]
    except dns.name.NeedAbsoluteNameOrOrigin:
        return [0, list(rd.to_digestable(ORIGIN))]


def compare_records(job):
    pair, tid = job
    try:
        x = build_record(pair["a"])
        y = build_record(pair["b"])
        ev = {"op": "cmp", "a": pair["a"], "b": pair["b"],
              "eq": cmp3(lambda: x == y), "ne": cmp3(lambda: x != y),
              "qe": cmp3(lambda: y == x),
              "hasheq": cmp3(lambda: hash(x) == hash(y)),
              "lt": cmp3(lambda: x < y), "le": cmp3(lambda: x <= y),
              "gt": cmp3(lambda: x > y), "ge": cmp3(lambda: x >= y),
              "da": digest(x), "db": digest(y)}
        return {"tid": tid, "part": "records", "ev": [ev]}
    except Exception as ex:  # noqa: BLE001
        return {"tid": tid, "part": "records", "ev": [{"op": "driver-error", "exc": repr(ex), "a": pair.get("a"), "b": pair.get("b")}]}


# ------------------------------------------------------------------------ part 3: immutability
def all_slots(obj):
    names = []
    for klass in type(obj).__mro__:
        sl = klass.__dict__.get("__slots__", ())
        if isinstance(sl, str):
            sl = (sl,)
        for s in sl:
            if s not in names and s not in ("__dict__", "__weakref__"):
                names.append(s)
    d = getattr(obj, "__dict__", None)
    if isinstance(d, dict):
        for s in d:
            if s not in names:
                names.append(s)
    return names


_LEAF = (int, bytes, str, float, bool, type(None))


def kinds(value, out, depth=0):
    """Collect the kinds of everything reachable from a field value (projection only:
    which kinds count as immutable is decided by the trace specification)."""
    if depth > 8:
        out.add("too-deep")
    elif isinstance(value, enum.Enum):
        out.add("enum")
    elif isinstance(value, _LEAF):
        out.add(type(value).__name__)
    elif isinstance(value, dns.name.Name):
        out.add("Name")
    elif isinstance(value, tuple):
        out.add("tuple")
        for v in value:
            kinds(v, out, depth + 1)
    elif isinstance(value, frozenset):
        out.add("frozenset")
        for v in value:
            kinds(v, out, depth + 1)
    elif isinstance(value, dns.immutable.Dict):
        out.add("Dict")
        for k, v in value.items():
            kinds(k, out, depth + 1)
            kinds(v, out, depth + 1)
    elif isinstance(value, (list, dict, set, bytearray)):
        out.add(type(value).__name__)
    elif isinstance(value, (collections.abc.MutableSequence, collections.abc.MutableMapping,
                            collections.abc.MutableSet, array.array, memoryview)):
        out.add("mutable-container")
    else:
        out.add("object")  # probed on its own (see nested)


def same(a, b):
    try:
        return a is b or a == b
    except Exception:  # noqa: BLE001
        return False


def probe_object(obj, label, traces, seen, depth=0):
    """Try to rebind and to delete every slot of obj through setattr/delattr, and to add a
    new attribute; describe every field value; recurse into nested objects.  One trace per
    object, so that one mutable object does not hide the findings about another."""
    if id(obj) in seen or depth > 6:
        return
    seen.add(id(obj))
    events = []
    traces.append({"tid": label, "part": "immutable", "cls": type(obj).__module__ + "." + type(obj).__qualname__,
                   "ev": events})
    names = all_slots(obj)
    for attr in names + ["verif_new_attribute"]:
        present = hasattr(obj, attr)
        before = getattr(obj, attr, None)
        try:
            setattr(obj, attr, before if present else 1)
            set_res = "ok"
        except Exception:  # noqa: BLE001
            set_res = "err"
        try:
            delattr(obj, attr)
            del_res = "ok"
        except Exception:  # noqa: BLE001
            del_res = "err"
        after_present = hasattr(obj, attr)
        unchanged = after_present == present and (not present or same(getattr(obj, attr, None), before))
        if del_res == "ok" and present:
            try:  # put it back so that the walk can go on
                object.__setattr__(obj, attr, before)
            except Exception:  # noqa: BLE001
                pass
        if set_res == "ok" and not present and hasattr(obj, attr):
            try:
                object.__delattr__(obj, attr)
            except Exception:  # noqa: BLE001
                pass
        ks = set()
        if present:
            kinds(before, ks)
        events.append({"op": "slot", "attr": attr, "present": present, "set": set_res, "del": del_res,
                       "unchanged": bool(unchanged), "kinds": sorted(ks) or ["absent"]})
        if present:
            for sub, sublabel in nested(before, "%s.%s" % (label, attr)):
                if isinstance(sub, dns.immutable.Dict):
                    if id(sub) not in seen:
                        seen.add(id(sub))
                        probe_mapping(sub, sublabel, traces)
                else:
                    probe_object(sub, sublabel, traces, seen, depth + 1)


def nested(value, label):
    """Objects reachable from a field value that have attributes of their own."""
    if isinstance(value, (enum.Enum,) + _LEAF) or isinstance(value, dns.name.Name):
        return
    if isinstance(value, (tuple, frozenset)):
        for k, v in enumerate(value):
            yield from nested(v, "%s[%s]" % (label, type(v).__name__))
    elif isinstance(value, dns.immutable.Dict):
        # mutation through the mapping protocol
        yield value, label + "{Dict}"
        for k, v in value.items():
            yield from nested(k, label + "{key}")
            yield from nested(v, "%s{%s}" % (label, type(v).__name__))
    elif isinstance(value, (list, dict, set, bytearray)):
        return
    else:
        yield value, label


def probe_mapping(d, label, traces):
    events = []
    traces.append({"tid": label, "part": "immutable", "cls": "dns.immutable.Dict", "ev": events})
    key = next(iter(d), None)
    for what, fn in (("setitem", lambda: d.__setitem__(key, 1)), ("delitem", lambda: d.__delitem__(key)),
                     ("clear", lambda: d.clear()), ("update", lambda: d.update({})),
                     ("pop", lambda: d.pop(key))):
        snapshot = dict(d)
        try:
            fn()
            res = "ok"
        except Exception:  # noqa: BLE001
            res = "err"
        events.append({"op": "mapping", "attr": what, "res": res, "unchanged": dict(d) == snapshot})


def probe_value(job):
    """-> list of traces (one per object reachable from the value)"""
    label, obj = job
    try:
        traces = []
        probe_object(obj, label, traces, set())
        for tr in traces:
            tr["root"] = label
        return traces
    except Exception as ex:  # noqa: BLE001
        return [{"tid": label, "part": "immutable", "cls": "?", "ev": [{"op": "driver-error", "exc": repr(ex)}]}]


def mutable_twin(value, holders, deep=True):
    """The value as a caller could hand it to a constructor in mutable containers: bytearray
    for bytes, list for tuple, dict for dns.immutable.Dict (recursively).  `holders`
    collects the containers so that they can be changed after the construction."""
    if isinstance(value, bytes):
        b = bytearray(value)
        holders.append(b)
        return b
    if isinstance(value, tuple) and not hasattr(value, "_fields"):
        lst = [mutable_twin(v, holders) if deep else v for v in value]
        holders.append(lst)
        return lst
    if isinstance(value, dns.immutable.Dict):
        d = {k: mutable_twin(v, holders) if deep else v for k, v in value.items()}
        holders.append(d)
        return d
    return value


def deep_kinds(obj, out, depth=0):
    """kinds of every field of obj, through nested attribute-bearing objects"""
    for attr in all_slots(obj):
        if not hasattr(obj, attr):
            continue
        v = getattr(obj, attr)
        kinds(v, out)
        if depth < 4:
            for sub, _ in nested(v, attr):
                if not isinstance(sub, dns.immutable.Dict):
                    deep_kinds(sub, out, depth + 1)


def observe(rd, ref):
    try:
        return [rd.to_wire(), hash(rd), rd == ref, ref == rd]
    except Exception as ex:  # noqa: BLE001
        return ["raised", type(ex).__name__]


def probe_ctor(job):
    """For one rdata instance: for every constructor parameter whose value is (or holds) an
    immutable container, build a new record through the PUBLIC constructor with that
    argument in mutable containers; record the kinds of all stored fields, then change the
    containers that were passed and record whether to_wire / hash / == moved.
    -> one trace per (class, parameter)."""
    import inspect

    label, obj = job
    traces = []
    try:
        params = list(inspect.signature(obj.__init__).parameters)
    except Exception as ex:  # noqa: BLE001
        return [{"tid": label + "#ctor", "root": label, "part": "immutable", "cls": label,
                 "ev": [{"op": "driver-error", "exc": repr(ex)}]}]
    if not all(hasattr(obj, k) for k in params):
        return []
    cls = type(obj).__module__ + "." + type(obj).__qualname__
    for k in params:
        holders = []
        twin = mutable_twin(getattr(obj, k), holders)
        if not holders:
            continue
        ev = {"op": "ctor", "attr": k, "built": "err", "kinds": ["absent"], "same": True,
              "passed": sorted({type(h).__name__ for h in holders})}
        new = None
        for deep in (True, False):  # if nested mutable containers are refused, only the outer one
            if not deep:
                holders = []
                twin = mutable_twin(getattr(obj, k), holders, deep=False)
            try:
                new = type(obj)(*[twin if p == k else getattr(obj, p) for p in params])
                ev["passed"] = sorted({type(h).__name__ for h in holders})
                break
            except Exception:  # noqa: BLE001 - a constructor may refuse mutable containers
                new = None
        if new is not None:
            ks = set()
            deep_kinds(new, ks)
            before = observe(new, obj)
            for h in holders:
                if isinstance(h, bytearray):
                    h[:] = bytes(x ^ 0xFF for x in h) + b"\x07"
                else:
                    h.clear()
            after = observe(new, obj)
            ev.update(built="ok", kinds=sorted(ks) or ["absent"], same=bool(before == after and before[0] != "raised"))
        traces.append({"tid": "%s#ctor:%s" % (label, k), "root": label, "part": "immutable", "cls": cls, "ev": [ev]})
    return traces


# one sample text per rdata type (class IN unless noted); the check fails as MACHINERY if a
# loaded rdata class has no sample here, so a new type cannot silently escape the probe
SAMPLES = {
    "A": "10.0.0.1", "NS": "ns.example.", "CNAME": "target.example.", "SOA": "ns.example. admin.example. 1 3600 600 86400 300",
    "WKS": "10.0.0.1 6 25 80", "PTR": "host.example.", "HINFO": '"cpu" "os"', "MX": "10 mail.example.", "TXT": '"hello" "world"',
    "RP": "mbox.example. txt.example.", "AFSDB": "1 afs.example.", "X25": '"311061700956"', "ISDN": '"150862028003217" "004"',
    "RT": "10 relay.example.", "NSAP": "0x47.0005.80.005a00.0000.0001.e133.ffffff000161.00", "NSAP-PTR": "host.example.",
    "SIG": "A 8 2 300 20300101000000 20200101000000 1000 example. AAAA", "KEY": "256 3 8 AQAB",
    "PX": "10 map822.example. mapx400.example.", "GPOS": "-32.6882 116.8652 10.0", "AAAA": "2001:db8::1",
    "LOC": "60 9 0.000 N 24 39 0.000 E 10.00m 20.00m 2000.00m 20.00m", "SRV": "0 1 443 server.example.",
    "NAPTR": '100 50 "s" "http+I2L+I2C+I2R" "" _http._tcp.example.', "KX": "10 kx.example.",
    "CERT": "PKIX 1 8 AQAB", "DNAME": "target.example.", "OPT": None, "APL": "1:192.168.32.0/21 !1:192.168.38.0/28 2:2001:db8::/32",
    "DS": "12345 8 2 " + "ab" * 32, "SSHFP": "1 1 " + "ab" * 20, "IPSECKEY": "10 3 2 gateway.example. AQAB",
    "RRSIG": "A 8 2 300 20300101000000 20200101000000 1000 example. AAAA", "NSEC": "next.example. A MX RRSIG NSEC TYPE1234",
    "DNSKEY": "257 3 8 AQAB", "DHCID": "AAIBY2/AuCccgoJbsaxcQc9TUapptP69lOjxfNuVAA2kjEA=",
    "NSEC3": "1 1 12 aabbccdd 2t7b4g4vsa5smi47k61mv5bv1a22bojr MX DNSKEY NS SOA NSEC3PARAM RRSIG", "NSEC3PARAM": "1 0 12 aabbccdd",
    "TLSA": "3 1 1 " + "ab" * 32, "SMIMEA": "3 1 1 " + "ab" * 32, "HIP": "2 200100107B1A74DF365639CC39F1D578 AwEAAbdxyhNuSutc5EMzxTs9LBPCIkOFH8cIvM4p9+LrV4e19WzK00+CI6zBCQTdtWsuxKbWIy87UOoJTwkUs7lBu+Upr1gsNrut79ryra+bSRGQb1slImA8YVJyuIDsj7kwzG7jnERNqnWxZ48AWkskmdHaVDP4BcelrTI3rMXdXF5D rvs.example.",
    "NINFO": '"info"', "CDS": "12345 8 2 " + "ab" * 32, "CDNSKEY": "257 3 8 AQAB", "OPENPGPKEY": "AQAB",
    "CSYNC": "66 3 A NS AAAA", "ZONEMD": "2018031900 1 1 " + "ab" * 48, "SVCB": '1 svc.example. alpn="h2,h3" port=443 ipv4hint=10.0.0.1 mandatory=alpn',
    "HTTPS": '1 . alpn="h3" no-default-alpn ipv6hint=2001:db8::1 ech=AQAB',
    "DSYNC": "CDS NOTIFY 5359 scanner.example.", "HHIT": "AQAB", "BRID": "AQAB", "SPF": '"v=spf1 -all"', "NID": "10 0014:4fff:ff20:ee64",
    "L32": "10 10.1.2.0", "L64": "10 2001:0db8:1140:1000", "LP": "10 l64-subnet.example.", "EUI48": "00-00-5e-00-53-2a",
    "EUI64": "00-00-5e-ef-10-00-00-2a", "TKEY": "alg.example. 1 2 3 0 AQAB AQAB", "TSIG": None,
    "URI": '10 1 "http://www.example/"', "CAA": '0 issue "ca.example"', "AVC": '"app"', "AMTRELAY": "10 0 3 relay.example.",
    "RESINFO": '"qnamemin" "exterr=15-17"', "WALLET": '"currency" "address"', "DLV": "12345 8 2 " + "ab" * 32,
}


def sample_rdata(rdclass, rdtype):
    import dns.edns
    import dns.rdtypes.ANY.OPT
    import dns.rdtypes.ANY.TSIG

    tt = dns.rdatatype.to_text(rdtype)
    if tt == "OPT":
        opts = [dns.edns.GenericOption(65001, b"\x01\x02"), dns.edns.ECSOption("10.0.0.0", 24),
                dns.edns.EDEOption(15, "blocked"), dns.edns.NSIDOption(b"id"), dns.edns.CookieOption(b"12345678", b"")]
        return dns.rdtypes.ANY.OPT.OPT(1232, dns.rdatatype.OPT, opts)
    if tt == "TSIG":
        return dns.rdtypes.ANY.TSIG.TSIG(dns.rdataclass.ANY, dns.rdatatype.TSIG, dns.name.from_text("hmac-sha256."),
                                         1600000000, 300, b"\x01" * 32, 4660, 0, b"")
    if rdclass == dns.rdataclass.CH and tt == "A":
        return dns.rdata.from_text(rdclass, rdtype, "ch.example. 0101")
    return dns.rdata.from_text(rdclass, rdtype, SAMPLES[tt])


def value_jobs():
    """(label, object) for dns.name.Name values and one instance of every rdata class."""
    dns.rdata.load_all_types()
    jobs = [("Name:abs", dns.name.from_text("Host.Example.")), ("Name:rel", dns.name.from_text("host", None)),
            ("Name:root", dns.name.root), ("Name:empty", dns.name.empty)]
    missing = []
    classes = {}
    for (rdclass, rdtype), klass in dns.rdata._rdata_classes.items():
        if klass not in classes or rdclass == dns.rdataclass.IN:
            classes[klass] = (rdclass, rdtype)
    for klass, (rdclass, rdtype) in sorted(classes.items(), key=lambda kv: (kv[0].__module__, kv[0].__qualname__)):
        label = "%s.%s" % (klass.__module__, klass.__qualname__)
        tt = dns.rdatatype.to_text(rdtype)
        if tt not in SAMPLES:
            missing.append(label)
            continue
        if rdclass == dns.rdataclass.ANY:
            rdclass = dns.rdataclass.IN
        try:
            obj = sample_rdata(rdclass, rdtype)
        except Exception as ex:  # noqa: BLE001
            missing.append("%s (sample does not parse: %r)" % (label, ex))
            continue
        if type(obj) is not klass and not isinstance(obj, klass):
            missing.append("%s (sample built a %s)" % (label, type(obj).__name__))
            continue
        jobs.append((label, obj))
    jobs.append(("dns.rdata.GenericRdata", dns.rdata.from_text("IN", "TYPE65280", "\\# 2 0102")))
    return jobs, missing
