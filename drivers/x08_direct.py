"""X08 driver: replay a history of direct (non-transaction) zone / node API calls (from
Gen_ZoneDirect) on a real zone class and record one event per call: outcome, projected
return value, and the projected zone content after the call.  Only drives and projects;
Trace_ZoneDirect judges."""
import dns.btreezone
import dns.name
import dns.node
import dns.rdata
import dns.rdataclass
import dns.rdataset
import dns.rdatatype
import dns.rrset
import dns.versioned
import dns.zone

ORIGIN = dns.name.from_text("example.")
ORIGIN2 = dns.name.from_text("example2.")
IN = dns.rdataclass.IN
ZCLASSES = {"plain": dns.zone.Zone, "versioned": dns.versioned.Zone, "btree": dns.btreezone.Zone}
_RD_TEXT = {
    "NS": "ns%d.other.", "A": "10.0.0.%d", "AAAA": "2001:db8::%d", "TXT": '"t%d"', "MX": "10 mx%d.other.",
    "CNAME": "target%d.other.", "DNAME": "dtarget%d.other.", "NSEC": "next%d.other. A",
    "SOA": "ns.other. admin.other. %d 3600 600 86400 300",
}
_cache = {}


def split_type(ty):
    if "/" in ty:
        a, b = ty.split("/")
        return dns.rdatatype.from_text(a), dns.rdatatype.from_text(b)
    return dns.rdatatype.from_text(ty), dns.rdatatype.NONE


def make_rdata(ty, k):
    rd = _cache.get((ty, k))
    if rd is None:
        rdtype, covers = split_type(ty)
        if rdtype == dns.rdatatype.RRSIG:
            text = "%s 8 2 300 20300101000000 20200101000000 %d example. AAAA" % (dns.rdatatype.to_text(covers), 1000 + k)
        else:
            text = _RD_TEXT[ty] % k
        rd = _cache[(ty, k)] = dns.rdata.from_text(IN, rdtype, text)
    return rd


def rd_type(rd):
    t = dns.rdatatype.to_text(rd.rdtype)
    if rd.rdtype == dns.rdatatype.RRSIG:
        t += "/" + dns.rdatatype.to_text(rd.covers())
    return t


def rd_id(ty, rd):
    for k in range(0, 6):
        try:
            if make_rdata(ty, k) == rd:
                return k
        except Exception:
            break
    return -1


def type_text(rds):
    t = dns.rdatatype.to_text(rds.rdtype)
    if rds.covers != dns.rdatatype.NONE:
        t += "/" + dns.rdatatype.to_text(rds.covers)
    return t


def name_text(name, relativize, origin=ORIGIN):
    """Project an owner name held or returned by the zone; a name in the wrong relativity for
    the zone is flagged so that it cannot match the model."""
    if relativize:
        if name.is_absolute():
            return "ABS:" + name.to_text().lower()
        return name.to_text().lower()
    if not name.is_absolute():
        return "REL:" + name.to_text().lower()
    if not name.is_subdomain(origin):
        return "OUT:" + name.to_text().lower()
    return name.relativize(origin).to_text().lower()


def rds_proj(rds):
    ty = type_text(rds)
    return [ty, int(rds.ttl), sorted(rd_id(ty, rd) for rd in rds)]


def node_proj(node):
    return sorted(rds_proj(rds) for rds in node.rdatasets)


def project_zone(zone, relativize, origin=ORIGIN):
    out = []
    for name, node in zone.nodes.items():
        n = name_text(name, relativize, origin)
        if len(node.rdatasets) == 0:
            out.append([n, "EMPTYNODE", 0, []])
        for rds in node.rdatasets:
            out.append([n] + rds_proj(rds))
    out.sort()
    return out


def spell(n, sp, origin=ORIGIN):
    if n == "OUT":
        # not below the origin: a sibling whose text merely ends like the origin, another tree, the root
        return {"sabs": "xexample.", "sup": "XEXAMPLE.", "srel": "x.other.", "rel": dns.name.root}.get(sp, dns.name.from_text("x.other."))
    rel = dns.name.empty if n == "@" else dns.name.from_text(n, None)
    if sp == "rel":
        return rel
    if sp == "abs":
        return rel.derelativize(origin)
    if sp == "srel":
        return n
    text = rel.derelativize(origin).to_text()
    return text.upper() if sp == "sup" else text


def as_name(x):
    return dns.name.from_text(x, None) if isinstance(x, str) else x


def build_rdataset(ty, ttl, ids):
    rdtype, covers = split_type(ty)
    r = dns.rdataset.Rdataset(IN, rdtype, covers, ttl)
    for k in ids:
        r.add(make_rdata(ty, k), ttl)
    return r


def build_rrset(name, ty, ttl, ids):
    rdtype, covers = split_type(ty)
    r = dns.rrset.RRset(as_name(name), IN, rdtype, covers)
    r.ttl = ttl
    for k in ids:
        r.add(make_rdata(ty, k), ttl)
    return r


def build_node(shape):
    node = dns.node.Node()
    for ty, ttl, ids in shape:
        node.replace_rdataset(build_rdataset(ty, ttl, ids))
    return node


def make_zone(zclass, relativize, content, origin=ORIGIN, rdclass=IN):
    """content: projection rows [name, type, ttl, ids] (+ EMPTYNODE rows).  A plain zone is
    filled through the direct API, a versioned one through one replacement transaction."""
    sp = "rel" if relativize else "abs"
    empties = any(ty == "EMPTYNODE" or not ids for _, ty, _, ids in content)
    if zclass != "plain" and empties:
        zclass = "plain"
    if rdclass != IN:
        src = make_zone("plain", relativize, content, origin)
        zone = dns.zone.Zone(origin, rdclass, relativize=relativize)
        for name, node in src.nodes.items():
            zone[name] = node
        return zone
    zone = ZCLASSES[zclass](origin, relativize=relativize)
    if zclass == "plain":
        for n, ty, ttl, ids in content:
            if ty == "EMPTYNODE":
                zone.find_node(spell(n, sp, origin), create=True)
            else:
                zone.replace_rdataset(spell(n, sp, origin), build_rdataset(ty, ttl, ids))
    elif content:
        with zone.writer(True) as txn:
            for n, ty, ttl, ids in content:
                txn.add(spell(n, sp, origin), build_rdataset(ty, ttl, ids))
    return zone


def call(fn):
    try:
        return "ok", "", fn()
    except BaseException as e:  # noqa: BLE001 - every outcome is an event
        return "err", type(e).__name__, None


def val_node(node):
    return ["none"] if node is None else ["node", node_proj(node)]


def val_rds(rds):
    return ["none"] if rds is None else ["rds"] + rds_proj(rds)


def val_nothing(x):
    return ["nothing"] if x is None else ["unexpected", repr(x)[:60]]


def immutable_wrapper(node):
    """dns.node.ImmutableNode(node): same content, every mutator refused."""
    w = dns.node.ImmutableNode(node)
    before = node_proj(w)
    some = build_rdataset("A", 300, [1])
    ty = w.rdatasets[0] if len(w.rdatasets) else some
    outcomes = [call(lambda: w.find_rdataset(IN, dns.rdatatype.TXT, create=True)),
                call(lambda: w.get_rdataset(IN, dns.rdatatype.TXT, create=True)),
                call(lambda: w.delete_rdataset(IN, ty.rdtype, ty.covers)),
                call(lambda: w.replace_rdataset(some))]
    return {"content": before, "after": node_proj(w), "kind": w.classify().name, "isimm": bool(w.is_immutable()),
            "refused": [o[0] for o in outcomes], "exc": [o[1] for o in outcomes]}


def reader_value(zone, op, name, rdtype, covers, relativize):
    """The same read done through a read-only transaction."""
    def rd():
        with zone.reader() as txn:
            if op == "get_rdataset":
                return val_rds(txn.get(name, rdtype, covers))
            if op == "get_node":
                return val_node(txn.get_node(as_name(name)))
            if op == "contains":
                return ["bool", bool(txn.name_exists(name))]
            if op == "keys":
                return ["names", sorted(name_text(n, relativize) for n in txn.iterate_names())]
            return ["items", sorted([name_text(n, relativize)] + rds_proj(r) for n, r in txn.iterate_rdatasets())]
    res, exc, v = call(rd)
    return v if res == "ok" else ["exc", exc]


def do_call(zone, e, zclass, relativize, rec):
    """Perform one call; returns (res, exc, val)."""
    op = e["op"]
    name = spell(e["n"], e["sp"]) if "n" in e else None
    rdtype, covers = split_type(e["ty"]) if "ty" in e else (None, None)
    astext = e.get("sp") in ("srel", "sabs", "sup")   # "rdtype: RdataType or str": text types go with text names
    tyargs = (dns.rdatatype.to_text(rdtype), dns.rdatatype.to_text(covers)) if astext and rdtype is not None else (rdtype, covers)
    cr = e.get("cr", False)
    inzone = e.get("n") != "OUT"
    if op in ("find_node", "get_node"):
        res, exc, node = call(lambda: getattr(zone, op)(name, create=cr) if cr else getattr(zone, op)(name))
        if op == "get_node" and not cr and inzone:
            rec["tval"] = reader_value(zone, op, name, None, None, relativize)
        return res, exc, val_node(node)
    if op in ("getitem", "get"):
        res, exc, node = call(lambda: zone[name] if op == "getitem" else zone.get(name))
        return res, exc, val_node(node)
    if op == "contains":
        res, exc, b = call(lambda: name in zone)
        if inzone:
            rec["tval"] = reader_value(zone, op, name, None, None, relativize)
        return res, exc, ["bool", bool(b)]
    if op in ("delete_node", "delitem"):
        res, exc, x = call(lambda: zone.delete_node(name) if op == "delete_node" else zone.__delitem__(name))
        return res, exc, val_nothing(x)
    if op == "setitem":
        node = build_node(rec["node"])
        res, exc, x = call(lambda: zone.__setitem__(name, node))
        return res, exc, val_nothing(x)
    if op in ("find_rdataset", "get_rdataset"):
        meth = getattr(zone, op)
        a = tyargs
        res, exc, rds = call(lambda: meth(name, a[0], a[1], create=True) if cr else meth(name, a[0], a[1]))
        if op == "get_rdataset" and not cr and inzone:
            rec["tval"] = reader_value(zone, op, name, rdtype, covers, relativize)
        return res, exc, val_rds(rds)
    if op in ("find_rrset", "get_rrset"):
        res, exc, rrs = call(lambda: getattr(zone, op)(name, *tyargs))
        if rrs is None:
            return res, exc, ["none"]
        return res, exc, ["rrset", name_text(rrs.name, relativize)] + rds_proj(rrs)
    if op == "delete_rdataset":
        res, exc, x = call(lambda: zone.delete_rdataset(name, *tyargs))
        return res, exc, val_nothing(x)
    if op in ("replace_rdataset", "node_replace"):
        if e["form"] == "rrset":
            repl = build_rrset(spell(e["n"], "abs"), e["ty"], e["ttl"], rec["rds"])
        else:
            repl = build_rdataset(e["ty"], e["ttl"], rec["rds"])
        if op == "replace_rdataset":
            res, exc, x = call(lambda: zone.replace_rdataset(name, repl))
        else:
            res, exc, x = call(lambda: zone.find_node(name).replace_rdataset(repl))
        if res == "ok" and e["form"] == "rdataset":   # "it stores replacement itself"
            rec["own"] = any(r is repl for r in zone.find_node(name).rdatasets)
        return res, exc, val_nothing(x)
    if op == "addto":
        def fn():
            rds = zone.find_rdataset(name, *tyargs, create=True) if cr else zone.find_rdataset(name, *tyargs)
            rds.add(make_rdata(e["ty"], e["rd"]), e["ttl"])
            return rds
        res, exc, rds = call(fn)
        return res, exc, val_rds(rds)
    if op in ("iterate_rdatasets", "iterate_rdatas"):
        f = e["f"]
        if f == "ANY/A":
            args = (dns.rdatatype.ANY, dns.rdatatype.A)
        elif f == "ANY":   # the default arguments, or ANY spelled out
            args = () if len(rec["tid"]) % 2 else (dns.rdatatype.ANY,)
        else:
            args = split_type(f)
        if op == "iterate_rdatasets":
            res, exc, got = call(lambda: [[name_text(n, relativize)] + rds_proj(r) for n, r in zone.iterate_rdatasets(*args)])
            if f == "ANY":
                rec["tval"] = reader_value(zone, op, None, None, None, relativize)
            tag = "items"
        else:
            res, exc, got = call(lambda: [[name_text(n, relativize), rd_type(rd), int(ttl), rd_id(rd_type(rd), rd)]
                                          for n, ttl, rd in zone.iterate_rdatas(*args)])
            tag = "rdatas"
        rec["cnt"] = len(got) if got is not None else -1
        return res, exc, [tag, sorted(got or [])]
    if op == "keys":
        res, exc, got = call(lambda: [[name_text(n, relativize) for n in it] for it in
                                      (zone.keys(), iter(zone), [k for k, _ in zone.items()])])
        rec["cnt"] = len(got[0]) if got else -1
        rec["same3"] = bool(got) and sorted(got[0]) == sorted(got[1]) == sorted(got[2]) and \
            len(list(zone.values())) == len(got[0])
        rec["tval"] = reader_value(zone, op, None, None, None, relativize)
        return res, exc, ["names", sorted(got[0]) if got else []]
    if op == "get_soa":
        res, exc, soa = call(zone.get_soa)
        return res, exc, ["soa", rd_id("SOA", soa) if soa is not None else -1]
    if op == "check_origin":
        res, exc, x = call(zone.check_origin)
        return res, exc, val_nothing(x)
    if op == "eq":
        oz = make_zone(zclass if e["same"] else "plain", relativize, rec["other"],
                       ORIGIN if e["so"] else ORIGIN2, IN if e["sc"] else dns.rdataclass.CH)
        res, exc, b = call(lambda: zone == oz)
        res2, _, nb = call(lambda: zone != oz)
        rec["ne"] = bool(nb) if res2 == "ok" else bool(b)
        return res, exc, ["bool", bool(b)]
    if op in ("txn_add", "txn_replace", "txn_deltype", "txn_delname"):
        def fn():
            with zone.writer() as txn:
                if op == "txn_delname":
                    return txn.delete(name)
                if op == "txn_deltype":
                    return txn.delete(name, rdtype, covers) if covers != dns.rdatatype.NONE else txn.delete(name, rdtype)
                meth = txn.add if op == "txn_add" else txn.replace
                ids, form = rec["rds"], e["form"]
                if form == "rdata" and len(ids) == 1:
                    return meth(name, e["ttl"], make_rdata(e["ty"], ids[0]))
                if form == "rrset":
                    return meth(build_rrset(name, e["ty"], e["ttl"], ids))
                return meth(name, build_rdataset(e["ty"], e["ttl"], ids))
        res, exc, x = call(fn)
        return res, exc, val_nothing(x)
    # ---- calls on the node object returned by zone.find_node(name)
    res, exc, node = call(lambda: zone.find_node(name))
    if res != "ok":
        return res, exc, ["-"]
    if op in ("node_find", "node_get"):
        meth = node.find_rdataset if op == "node_find" else node.get_rdataset
        res, exc, rds = call(lambda: meth(IN, rdtype, covers, create=True) if cr else meth(IN, rdtype, covers))
        return res, exc, val_rds(rds)
    if op == "node_delete":
        res, exc, x = call(lambda: node.delete_rdataset(IN, rdtype, covers))
        return res, exc, val_nothing(x)
    if op == "node_info":
        rec["imm"] = immutable_wrapper(node)
        rec["kinds"] = sorted([type_text(r), dns.node.NodeKind.classify_rdataset(r).name] for r in node.rdatasets)
        rec["len"] = len(node)
        res, exc, v = call(lambda: ["info", node_proj(node), node.classify().name, bool(node.is_immutable())])
        return res, exc, v
    raise ValueError("unknown op %r" % op)


def replay(hist, zclass, relativize, tid):
    init = sorted([list(x[:3]) + [sorted(x[3])] for x in hist[0]["zone"]])
    trace = {"tid": tid, "zclass": zclass, "rel": relativize, "mut": zclass == "plain", "init": init, "ev": []}
    zone = make_zone(zclass, relativize, init)
    ev = trace["ev"]
    ev.append({"op": "init", "st": project_zone(zone, relativize), "isz": type(zone).__module__})
    for e in hist[1:]:
        rec = dict(e)
        rec["tid"] = tid
        if "rds" in rec:
            rec["rds"] = sorted(rec["rds"])
        if "node" in rec:
            rec["node"] = sorted([x[0], x[1], sorted(x[2])] for x in rec["node"])
        if "other" in rec:
            rec["other"] = sorted([list(x[:3]) + [sorted(x[3])] for x in rec["other"]])
        res, exc, val = do_call(zone, e, zclass, relativize, rec)
        del rec["tid"]
        rec.update(res=res, exc=exc, val=val if res == "ok" else ["-"])
        rs, rexc, st = call(lambda: project_zone(zone, relativize))
        rec["st"] = st if rs == "ok" else [["PROJECTION-FAILED", rexc, 0, []]]
        ev.append(rec)
    return trace


def run_job(job):
    hist, zclass, relativize, tid = job
    try:
        return replay(hist, zclass, relativize, tid)
    except Exception as e:  # a driver failure is reported as an unmatched trace
        return {"tid": tid, "zclass": zclass, "rel": relativize, "mut": zclass == "plain", "init": [],
                "ev": [{"op": "driver-error", "exc": repr(e)}]}
