"""C05 driver.  Runs the REAL text codecs of dnspython and records what they did; no verdicts
here (the oracles are specs/Trace_RdTokenizer.tla and specs/Trace_RdataText.tla).

Exact layer:   dns.rdata._escapify, Tokenizer.get / unget, Token.unescape, Token.unescape_to_bytes
               on the strings of the universes declared in specs/C05Universe.tla.
Per-type layer: for every value vector of every implemented rdata type: wire -> from_wire ->
               to_text (per style / origin / relativize) -> from_text -> to_wire, the RFC 3597
               generic form, and records first built from text.
stdlib + dns only."""
import itertools
import json
import os
import random
import re

from vlib import core

core.repo_on_path()

import dns.exception  # noqa: E402
import dns.name  # noqa: E402
import dns.rdata  # noqa: E402
import dns.rdataclass  # noqa: E402
import dns.rdatatype  # noqa: E402
import dns.tokenizer  # noqa: E402

# must equal specs/C05Universe.tla (Trace_RdTokenizer checks every logged input against it)
ALPHA = {
    "tok": [32, 10, 34, 40, 41, 59, 92, 97],
    "esc": [0, 9, 10, 32, 34, 40, 41, 48, 59, 92, 97, 126, 127, 128, 200, 255],
    "unesc": [92, 48, 50, 53, 54, 97, 233, 256],
}
TTNAME = {0: "EOF", 1: "EOL", 2: "WHITESPACE", 3: "IDENTIFIER", 4: "QUOTED_STRING", 5: "COMMENT", 6: "DELIMITER"}
DUMMY_TOK = {"tt": "ERR", "val": [], "esc": False, "cmt": ["none"]}


def nth_string(alpha, n, k):
    a = ALPHA[alpha]
    b = len(a)
    return [a[(k // b ** (n - i)) % b] for i in range(1, n + 1)]


def cps(s):
    return [ord(c) for c in s]


def tok_json(tk):
    v = tk.value
    val = list(v) if isinstance(v, (bytes, bytearray)) else cps(v)
    return {"tt": TTNAME.get(tk.ttype, str(tk.ttype)), "val": val, "esc": bool(tk.has_escape),
            "cmt": ["none"] if tk.comment is None else ["c", cps(tk.comment)]}


def _res(fn):
    try:
        return ["ok", fn()]
    except Exception as e:  # noqa: BLE001
        return ["err", type(e).__name__]


def unesc_fields(tk):
    """both readings of the escapes of a token (octets / code points)"""
    ub = _res(lambda: list(tk.unescape_to_bytes().value))
    uc = _res(lambda: cps(tk.unescape().value))
    ucb = list("".join(map(chr, uc[1])).encode()) if uc[0] == "ok" else []
    return {"ub": ub, "uc": uc, "ucb": ucb}


def get_event(T, wl, wc):
    ev = {"op": "get", "wl": wl, "wc": wc}
    try:
        tk = T.get(wl, wc)
    except Exception as e:  # noqa: BLE001
        ev.update({"err": True, "fam": isinstance(e, dns.exception.SyntaxError), "exc": type(e).__name__,
                   "tok": DUMMY_TOK, "ml": int(T.multiline)})
        return ev, None
    ev.update({"err": False, "fam": True, "tok": tok_json(tk), "ml": int(T.multiline)})
    if tk.ttype in (3, 4):
        ev.update(unesc_fields(tk))
    return ev, tk


MODES = {0: (False, False, False), 1: (True, False, False), 2: (False, True, False), 3: (True, True, False),
         4: (False, False, True)}


def tokenize_events(s, mode):
    """get() until EOF or an exception; mode 4 pushes every token back once and gets it again"""
    wl, wc, ung = MODES[mode]
    T = dns.tokenizer.Tokenizer("".join(map(chr, s)))
    out = []
    for _ in range(2 * len(s) + 4):
        ev, tk = get_event(T, wl, wc)
        out.append(ev)
        if tk is None:
            break
        if ung:
            T.unget(tk)
            out.append({"op": "unget"})
            ev2, tk = get_event(T, wl, wc)
            out.append(ev2)
            if tk is None:
                break
        if tk.is_eof():
            break
    return out


def _exact_job(job):
    kind = job[0]
    if kind == "tok":          # ("tok", n, k, mode)
        _, n, k, mode = job
        s = nth_string("tok", n, k)
        return {"tid": "tok.%d.%d.%d" % (n, k, mode), "kind": kind, "s": s,
                "ev": [{"op": "univ", "alpha": "tok", "n": n, "k": k}] + tokenize_events(s, mode)}
    if kind == "free":         # ("free", tid, code points, mode): inputs outside the declared universe
        _, tid, s, mode = job
        return {"tid": tid, "kind": kind, "s": list(s), "ev": tokenize_events(list(s), mode)}
    if kind == "law":          # ("law", n, k): escapify -> quote -> get -> unescape_to_bytes
        _, n, k = job
        o = nth_string("esc", n, k)
        text = dns.rdata._escapify(bytes(o))
        s = cps('"' + text + '"')
        ev = [{"op": "esc", "o": o, "text": cps(text)}]
        tev = tokenize_events(s, 0)
        ev += tev
        back = tev[0].get("ub", ["err", "no-token"]) if tev else ["err", "no-token"]
        ev.append({"op": "law", "o": o, "back": back})
        return {"tid": "law.%d.%d" % (n, k), "kind": kind, "s": s, "ev": ev}
    if kind == "unesc":        # ("unesc", n, k): a token built directly
        _, n, k = job
        s = nth_string("unesc", n, k)
        v = "".join(map(chr, s))
        tk = dns.tokenizer.Token(dns.tokenizer.IDENTIFIER, v, "\\" in v)
        e = {"op": "unesc"}
        e.update(unesc_fields(tk))
        return {"tid": "unesc.%d.%d" % (n, k), "kind": kind, "s": s,
                "ev": [{"op": "univ", "alpha": "unesc", "n": n, "k": k}, e]}
    raise ValueError("unknown exact job %r" % (job,))


def run_exact(job):
    try:
        return _exact_job(job)
    except Exception as e:  # noqa: BLE001  (a driver failure is an event nobody matches)
        return {"tid": "crash.%s" % (job,), "kind": "crash", "s": [], "ev": [{"op": "driver-error", "exc": repr(e)}]}


def exact_jobs(tier, seed):
    quick = tier == "quick"
    ntok, nmode, nlaw, nun = (5, 4, 3, 4) if quick else (6, 5, 4, 5)
    jobs = []
    for n in range(ntok + 1):
        jobs += [("tok", n, k, 0) for k in range(8 ** n)]
    for n in range(nmode + 1):
        jobs += [("tok", n, k, m) for k in range(8 ** n) for m in (1, 2, 3, 4)]
    for n in range(nlaw + 1):
        jobs += [("law", n, k) for k in range(16 ** n)]
    for n in range(nun + 1):
        jobs += [("unesc", n, k) for k in range(8 ** n)]
    # seeded longer inputs outside the enumerated universe (same oracle, no coverage claim)
    rng = random.Random(seed * 7919 + 5)
    alpha = ALPHA["tok"] + [9, 48, 49, 233, 0x4e2d]
    for i in range(400 if quick else 4000):
        ln = rng.randrange(7, 24)
        jobs.append(("free", "free.%d" % i, [rng.choice(alpha) for _ in range(ln)], rng.randrange(5)))
    return jobs


# ============================================================================ per-type layer
SCHEMAS = os.path.join(core.ROOT, "specs", "schemas.json")
CLASSES = {"IN": 1, "CH": 3}
NAMEISH = {"name", "names", "gateway"}


def load_schemas():
    with open(SCHEMAS) as f:
        doc = json.load(f)
    out = []
    for t in doc["types"]:
        out.append({"key": t.get("key", t["type"]), "cls": CLASSES[t["class"]], "code": t["code"], "fields": t["fields"],
                    "relative": t.get("relative", True)})
    return out


def loaded_types():
    """(class, type) of every non-generic implementation dns.rdata.load_all_types() loads"""
    dns.rdata.load_all_types(disable_dynamic_load=False)
    return sorted({(int(c), int(t)) for (c, t), cls in dns.rdata._rdata_classes.items()
                   if cls is not dns.rdata.GenericRdata and int(c) != 255})


def w_name(labels):
    return b"".join(bytes([len(lb)]) + bytes(lb) for lb in labels) + b"\0"


def w_bitmap(types):
    wins = {}
    for ty in sorted(types):
        wins.setdefault(ty >> 8, bytearray(32))
        wins[ty >> 8][(ty & 255) >> 3] |= 0x80 >> (ty & 7)
    out = b""
    for w in sorted(wins):
        bm = bytes(wins[w]).rstrip(b"\0")
        out += bytes([w, len(bm)]) + bm
    return out


def w_gateway(g):
    if g[0] == "none":
        return b""
    if g[0] in ("ipv4", "ipv6"):
        return bytes(g[1])
    return w_name(g[1])


def enc_field(f, v):
    k = f["kind"]
    if k == "u8":
        return bytes([v])
    if k == "u16":
        return int(v).to_bytes(2, "big")
    if k in ("u32", "u48", "ttl32", "ipv4", "ipv6", "bytes", "rest"):
        return bytes(v)
    if k == "name":
        return w_name(v)
    if k in ("cstr", "u8len"):
        return bytes([len(v)]) + bytes(v)
    if k == "cstropt":
        return (bytes([len(v)]) + bytes(v)) if len(v) else b""
    if k == "cstrs":
        return b"".join(bytes([len(s)]) + bytes(s) for s in v)
    if k == "u16len":
        return len(v).to_bytes(2, "big") + bytes(v)
    if k == "bitmap":
        return w_bitmap(v)
    if k == "names":
        return b"".join(w_name(n) for n in v)
    if k == "gateway":
        return w_gateway(v)
    if k == "hip":
        hit, alg, pk = v
        return bytes([len(hit), alg]) + len(pk).to_bytes(2, "big") + bytes(hit) + bytes(pk)
    if k == "apl":
        return b"".join(int(fam).to_bytes(2, "big") + bytes([pre, (neg << 7) | len(afd)]) + bytes(afd)
                        for fam, pre, neg, afd in v)
    if k == "tlvs":
        return b"".join(int(c).to_bytes(2, "big") + len(x).to_bytes(2, "big") + bytes(x) for c, x in v)
    raise ValueError("no wire encoder for kind %s" % k)


def field_dom(U, key, i, f):
    sp = U["special"].get("%s.%d" % (key, i + 1))
    if sp is not None:
        return sp
    k = f["kind"]
    if k == "bytes":
        return U["fixed"][str(f["n"])]["b"]
    if k == "u32":
        return U["fixed"]["4"]["u"]
    if k == "u48":
        return U["fixed"]["6"]["u"]
    if k in U["kinds"]:
        return U["kinds"][k]
    raise ValueError("%s field %s: kind %s has no declared values" % (key, f["name"], k))


def enc_vec(fields, vec):
    return b"".join(enc_field(f, v) for f, v in zip(fields, vec))


def vectors(U, types=None):
    """the declared vectors of every type: base, every single-field variation, the extra vectors.
    Returns jobs {tid, ty, cls, code, wire, what, names}."""
    jobs = []
    for t in load_schemas():
        key, fields = t["key"], t["fields"]
        if types and key not in types:
            continue
        doms = [field_dom(U, key, i, f) for i, f in enumerate(fields)]
        base = [d["base"] for d in doms]
        # meta records (TSIG, TKEY, OPT: "relative": false in schemas.json) never occur in zones
        nameish = t["relative"] and any(f["kind"] in NAMEISH for f in fields)
        seen = set()

        def add(vec, what):
            w = enc_vec(fields, vec)
            if w in seen or len(w) > 65535:
                return
            seen.add(w)
            jobs.append({"tid": "%s.%d" % (key, len(seen)), "ty": key, "cls": t["cls"], "code": t["code"],
                         "wire": list(w), "what": what, "names": nameish, "vec": vec})
        add(base, "base")
        for i, d in enumerate(doms):
            for x in d["vals"]:
                add(base[:i] + [x] + base[i + 1:], "f%d:%s" % (i + 1, fields[i]["name"]))
        for vec in U["extra"].get(key, []):
            add(list(vec), "extra")
    # RFC 3597: types without an implementation
    for code in (65280, 4660):
        for j, x in enumerate([U["kinds"]["rest"]["base"]] + U["kinds"]["rest"]["vals"]):
            jobs.append({"tid": "TYPE%d.%d" % (code, j), "ty": "TYPE%d" % code, "cls": 1, "code": code, "wire": list(x),
                         "what": "unknown", "names": False, "vec": [list(x)]})
    return jobs


# ---------------------------------------------------------------------------- real calls
def origin_of(U):
    return dns.name.Name([bytes(lb) for lb in U["origin"]] + [b""])


def origins(U):
    """origin id of the universe -> dns.name.Name ("none" -> None)"""
    return {"none": None, "org": origin_of(U),
            "sub": dns.name.Name([bytes(lb) for lb in U["suborigin"]] + [b""])}


def mk_style(st, origin, relativize):
    return dns.rdata.RdataStyle(origin=origin, relativize=relativize, txt_is_utf8=st["utf8"],
                                base64_chunk_size=st["b64"], base64_chunk_separator=st["b64sep"],
                                hex_chunk_size=st["hex"], hex_chunk_separator=st["hexsep"])


def _exc(ev, key, e):
    ev[key] = "err"
    ev[key + "x"] = type(e).__name__


def refs(cls, code, w0, O):
    """the reference objects a parsed record is compared with: the same RDATA decoded with and
    without relativization to the origin"""
    out = []
    for o in (O, None, _ORG["sub"]):
        try:
            out.append(dns.rdata.from_wire(cls, code, w0, 0, len(w0), o))
        except Exception:  # noqa: BLE001
            out.append(None)
    return out


def parsed_fields(ev, rd1, O, ref, rd0, want_sub=False):
    """what is recorded about a record obtained from text: its encoding, equality with the two
    reference objects, and whether it can be turned into text again"""
    try:
        w1 = rd1.to_wire(origin=O)
        ev["enc"] = "ok"
        ev["wire1"] = list(w1)
    except Exception as e:  # noqa: BLE001
        _exc(ev, "enc", e)
        ev["wire1"] = [-1]
    ev["eq0"] = bool(rd1 == rd0)
    if want_sub:
        try:
            ev["wire1s"] = list(rd1.to_wire(origin=_ORG["sub"]))
        except Exception:  # noqa: BLE001
            ev["wire1s"] = [-1]
    ev["eqs"] = bool(ref[2] is not None and rd1 == ref[2])
    ev["eqr"] = bool(ref[0] is not None and rd1 == ref[0])
    ev["eqa"] = bool(ref[1] is not None and rd1 == ref[1])
    try:
        rd1.to_text()
        ev["t2"] = "ok"
    except Exception as e:  # noqa: BLE001
        _exc(ev, "t2", e)


def rt_event(rd0, cls, code, O, oc, st, ref):
    ev = {"op": "rt", "oc": oc["id"], "st": st["id"], "text": "ok", "parse": "skip", "enc": "skip", "wire1": [-1],
          "eq0": False, "eqr": False, "eqa": False, "eqs": False, "t2": "skip"}
    sub = "sub" in (oc["op"], oc["relto"])
    if sub:
        ev["wire1s"] = [-1]
    try:
        text = rd0.to_styled_text(mk_style(st, _ORG[oc["ot"]], oc["rt"]))
    except Exception as e:  # noqa: BLE001
        _exc(ev, "text", e)
        return ev
    ev["txt"] = text[:100]
    try:
        rd1 = dns.rdata.from_text(cls, code, text, origin=_ORG[oc["op"]], relativize=oc["rp"],
                                  relativize_to=_ORG[oc["relto"]])
        ev["parse"] = "ok"
    except Exception as e:  # noqa: BLE001
        _exc(ev, "parse", e)
        return ev
    parsed_fields(ev, rd1, O, ref, rd0, sub)
    return ev


def gen_event(rd0, cls, code, O, gc, ref):
    """RFC 3597 generic form of the record, parsed back as the record's own type"""
    ev = {"op": "gen", "gc": gc["id"], "text": "ok", "parse": "skip", "enc": "skip", "wire1": [-1],
          "eq0": False, "eqr": False, "eqa": False, "eqs": False, "t2": "skip"}
    sub = "sub" in (gc["op"], gc["relto"])
    if sub:
        ev["wire1s"] = [-1]
    try:
        text = rd0.to_generic(origin=O).to_text()
    except Exception as e:  # noqa: BLE001
        _exc(ev, "text", e)
        return ev
    ev["txt"] = text[:100]
    try:
        rd1 = dns.rdata.from_text(cls, code, text, origin=_ORG[gc["op"]], relativize=gc["rp"],
                                  relativize_to=_ORG[gc["relto"]])
        ev["parse"] = "ok"
    except Exception as e:  # noqa: BLE001
        _exc(ev, "parse", e)
        return ev
    parsed_fields(ev, rd1, O, ref, rd0, sub)
    return ev


def config_list(U, nameish, base="abs"):
    """(origin config, style) pairs: every origin configuration the universe declares applicable
    to a record of this base, under the default style (only "plain" for types without embedded
    names); every style under the plain configuration"""
    ocs = sorted((c for c in U["orgconfigs"] if c["id"] in U["applicable"][base]), key=lambda c: c["id"])
    sts = sorted(U["styles"], key=lambda s: s["id"])
    dflt = [s for s in sts if s["id"] == "default"][0]
    plain = [c for c in ocs if c["id"] == "plain"][0]
    out = [(oc, dflt) for oc in ocs if nameish or oc["id"] == "plain"]
    out += [(plain, st) for st in sts if st["id"] != "default"]
    return out


def wire_trace(U, job, oin):
    O = origin_of(U)
    cls, code, wire = job["cls"], job["code"], bytes(job["wire"])
    part = job.get("part", "rt")
    tr = {"tid": "%s.%s.%s" % (job["tid"], oin, part), "ty": job["ty"], "kind": "wire", "what": job["what"], "ev": []}
    src = {"op": "src", "via": "wire", "oin": oin, "part": part, "acc": False, "w0": [-1], "vec": job["vec"]}
    tr["ev"].append(src)
    try:
        rd0 = dns.rdata.from_wire(cls, code, wire, 0, len(wire), O if oin == "org" else None)
    except Exception as e:  # noqa: BLE001
        src["accx"] = type(e).__name__
        return tr
    try:
        w0 = rd0.to_wire(origin=O)
    except Exception as e:  # noqa: BLE001   (C02's subject; nothing to say about text here)
        src["accx"] = "to_wire:" + type(e).__name__
        return tr
    src["acc"] = True
    src["w0"] = list(w0)
    ref = refs(cls, code, w0, O)
    # the generic form gets its own trace: a rejected trace is judged up to its first failing
    # event only, and the two groups exercise different code
    if part == "rt":
        for oc, st in config_list(U, job["names"], "org" if oin == "org" else "abs"):
            tr["ev"].append(rt_event(rd0, cls, code, O, oc, st, ref))
    else:
        for gc in sorted(U["genconfigs"], key=lambda c: c["id"]):
            if job["names"] or gc["id"] == "gnone":
                tr["ev"].append(gen_event(rd0, cls, code, O, gc, ref))
    return tr


_U = None
_ORG = {"none": None, "org": None, "sub": None}


def set_universe(U):
    global _U, _ORG
    _U = U
    _ORG = origins(U)


def run_wire(job):
    """job: a vector of vectors() plus 'oin'"""
    try:
        return wire_trace(_U, job, job["oin"])
    except Exception as e:  # noqa: BLE001
        return {"tid": job.get("tid", "?"), "ty": job.get("ty", "?"), "kind": "crash",
                "ev": [{"op": "driver-error", "exc": repr(e)}]}


# ---------------------------------------------------------------------------- records built FROM TEXT
_NUM = re.compile(r"[+-]?\d+(?:\.\d+)?")


def token_spans(text):
    """(start, end) of the whitespace-separated words of text that are outside quoted strings"""
    out, i, n = [], 0, len(text)
    while i < n:
        if text[i] in " \t":
            i += 1
            continue
        j = i
        if text[i] == '"':
            j = i + 1
            while j < n and text[j] != '"':
                j += 2 if text[j] == "\\" else 1
            j = min(n, j + 1)
        else:
            while j < n and text[j] not in " \t":
                j += 2 if text[j] == "\\" else 1
            j = min(n, j)
            out.append((i, j))
        i = j
    return out


def mutations(text, numsubst):
    """every text obtained by replacing ONE number inside one unquoted word (words of at most 24
    characters, at most 3 numbers per word) by one of the declared boundary strings"""
    out = []
    for (a, b) in token_spans(text):
        if b - a > 24:
            continue
        for k, m in enumerate(_NUM.finditer(text[a:b])):
            if k >= 3:
                break
            for s in numsubst:
                t2 = text[:a + m.start()] + s + text[a + m.end():]
                if t2 != text:
                    out.append(t2)
    return out


def text_trace(U, job):
    """job {tid, ty, cls, code, text, names}: a record built from text with no origin"""
    O = origin_of(U)
    cls, code, text = job["cls"], job["code"], job["text"]
    tr = {"tid": job["tid"], "ty": job["ty"], "kind": "text", "what": job.get("what", "text"), "ev": []}
    src = {"op": "src", "via": "text", "oin": "none", "acc": False, "w0": [-1], "enc": "skip", "txt": text[:300],
           "trel": bool(job.get("trel", False))}
    tr["ev"].append(src)
    try:
        rd0 = dns.rdata.from_text(cls, code, text)
    except Exception as e:  # noqa: BLE001
        src["accx"] = type(e).__name__
        src["lib"] = isinstance(e, dns.exception.DNSException)
        return tr
    src["acc"] = True
    try:
        w0 = rd0.to_wire(origin=O)
        src["enc"] = "ok"
        src["w0"] = list(w0)
    except Exception as e:  # noqa: BLE001
        _exc(src, "enc", e)
        return tr
    # projection of the record's state: does it hold relative names (text without an origin keeps them)
    try:
        rd0.to_wire()
    except dns.name.NeedAbsoluteNameOrOrigin:
        src["trel"] = True
    except Exception:  # noqa: BLE001
        pass
    ref = refs(cls, code, w0, O)
    for oc, st in config_list(U, job["names"], "org" if src["trel"] else "abs"):
        if st["id"] in ("default", "nochunk"):
            tr["ev"].append(rt_event(rd0, cls, code, O, oc, st, ref))
    return tr


def run_text(job):
    try:
        return text_trace(_U, job)
    except Exception as e:  # noqa: BLE001
        return {"tid": job.get("tid", "?"), "ty": job.get("ty", "?"), "kind": "crash",
                "ev": [{"op": "driver-error", "exc": repr(e)}]}


def base_texts(U, wire_jobs):
    """the plain text of the base vector of every type (the seeds of the mutations)"""
    out = []
    for j in wire_jobs:
        if j["what"] not in ("base", "unknown") or j["tid"].split(".")[-1] not in ("1", "0"):
            continue
        try:
            rd = dns.rdata.from_wire(j["cls"], j["code"], bytes(j["wire"]), 0, len(j["wire"]))
            out.append((j, rd.to_text()))
        except Exception:  # noqa: BLE001
            continue
    return out


def text_jobs(U, wire_jobs):
    jobs = []
    for j, text in base_texts(U, wire_jobs):
        subst = sorted(U["numsubst_short"] if j["ty"] in U["short_types"] else U["numsubst"])
        for k, t2 in enumerate([text] + mutations(text, subst)):
            jobs.append({"tid": "%s.t%d" % (j["ty"], k), "ty": j["ty"], "cls": j["cls"], "code": j["code"], "text": t2,
                         "names": j["names"], "what": "text" if k == 0 else "mut"})
    return jobs


# alternative input spellings (the library documents / the RFCs allow more than to_text() emits):
# each is offered to from_text(); the accepted ones are records "accepted from text"
ALT_TEXTS = [
    ("TXT", 'unquoted "quoted" a\\032b \\"x\\" \\200'), ("TXT", '( "multi"\n "line" )'), ("TXT", '"" ""'), ("TXT", "\\\\ \\; \\( \\)"),
    ("SPF", "v=spf1 -all"), ("HINFO", "cpu os"), ("HINFO", '"a b" c\\032d'), ("X25", "311061700956"), ("ISDN", "150862028003217 004"),
    ("SOA", "ns hostmaster 1 1h 30m 1w 1d"), ("SOA", "ns. hostmaster. 4294967295 0 0 0 0"), ("SOA", "@ @ 1 2 3 4 5"),
    ("MX", "10 mail"), ("MX", "0 ."), ("NS", "a\\.b.example."), ("NS", "\\000\\255"), ("CNAME", "@"), ("SRV", "0 0 0 ."),
    ("LOC", "42 21 54 N 71 06 18 W -24m 30m"), ("LOC", "52 N 0 E 0"), ("LOC", "0 0 0.5 S 0 0 0.05 W 0.1 1 2 3"),
    ("LOC", "90 N 180 W 42849672.95m 90000000.00m 90000000.00m 90000000.00m"), ("LOC", "90 0 0.001 N 0 E 0"),
    ("A", "192.0.2.1"), ("AAAA", "::ffff:192.0.2.1"), ("AAAA", "2001:DB8::1"), ("AAAA", "0:0:0:0:0:0:0:0"),
    ("NSEC3", "1 0 0 - 00 A"), ("NSEC3", "1 1 12 aabbccdd 2t7b4g4vsa5smi47k61mv5bv1a22bojr NS SOA TYPE65280"),
    ("NSEC3PARAM", "1 0 12 -"), ("NSEC", "a.example. A TYPE1234 RRSIG"), ("NSEC", "a.example."), ("CSYNC", "66 3 A NS AAAA"),
    ("DNSKEY", "257 3 RSASHA256 AQID BAUG"), ("DNSKEY", "ZONE|SEP 3 8 AQID"), ("KEY", "NOCONF|ZONE DNSSEC 1 AQID"), ("KEY", "49152 3 1"),
    ("DS", "12345 8 2 ( ABABABABABABABABABABABABABABABAB\n abababababababababababababababab )"), ("CDS", "0 0 0 00"),
    ("RRSIG", "A 8 2 3600 20300101000000 20200101000000 12345 example. AQID"), ("RRSIG", "TYPE65280 8 2 3600 4294967295 0 12345 . AQID"),
    ("CERT", "PKIX 1 RSASHA256 AQID"), ("CERT", "65535 65535 255 AQID"), ("TLSA", "3 1 1 ( AB cd\n EF )"), ("SSHFP", "4 2 ABCDEF"),
    ("CAA", "0 issue ca.example.net"), ("CAA", '128 iodef "mailto:security@example.com"'), ("URI", '10 1 "ftp://ftp1.example.com/public"'),
    ("URI", "10 1 http://unquoted/"), ("NAPTR", '100 10 "S" "SIP+D2U" "!^.*$!sip:x@example.com!" _sip._udp.example.com.'),
    ("NAPTR", '1 1 "" "" "" .'), ("SVCB", "0 alias.example."), ("SVCB", '1 . alpn="h2,h3" port=443 ipv4hint=192.0.2.1,192.0.2.2'),
    ("HTTPS", '1 . mandatory=alpn,port alpn=h2 port=8443 key65280="a\\"b" no-default-alpn'), ("HTTPS", "16 foo ech=AQID ipv6hint=2001:db8::1"),
    ("APL", "1:192.0.2.0/24 !2:2001:db8::/32 1:0.0.0.0/0"), ("APL", ""), ("HIP", "2 200100107B1A74DF365639CC39F1D578 AwEAAbdx rvs.example.com. ."),
    ("IPSECKEY", "10 3 2 gw.example. AQID"), ("IPSECKEY", "10 2 2 2001:db8::1 AQID"), ("IPSECKEY", "0 0 0 ."), ("AMTRELAY", "10 1 3 relay"),
    ("AMTRELAY", "0 0 0 ."), ("WKS", "10.0.0.1 6 25 80 65535"), ("WKS", "10.0.0.1 17"), ("GPOS", "-22.6882 116.8652 250.0"), ("GPOS", '"+1" "1." ".5"'),
    ("RP", "mbox txt"), ("AFSDB", "1 host"), ("PX", "10 a b"), ("KX", "1 @"), ("DNAME", "example.org."), ("NSAP", "0x47.0005.80.005a00.0000.0001.e133.ffffff000161.00"),
    ("NSAP-PTR", "foo."), ("EUI48", "00-00-5e-00-53-2a"), ("EUI64", "00-00-5E-EF-10-00-00-2A"), ("NID", "10 0014:4fff:ff20:ee64"), ("L32", "10 10.1.2.0"),
    ("L64", "10 2001:0DB8:1140:1000"), ("LP", "10 l64-subnet1"), ("ZONEMD", "2018031500 1 1 " + "ab" * 48), ("DHCID", "AAIBY2/AuCccgoJbsaxcQc9TUapptP69lOjxfNuVAA2kjEA="),
    ("OPENPGPKEY", "AQ ID"), ("SMIMEA", "0 0 1 AB"), ("DLV", "1 5 1 " + "ab" * 20), ("CDNSKEY", "0 3 0 AA=="), ("SIG", "0 8 0 0 20300101000000 20200101000000 1 . AQID"),
    ("TKEY", "alg. 1 2 3 0 3 AQID 0"), ("TSIG", "hmac-sha256. 1600000000 300 3 AQID 4660 BADTIME 6 AAAAAAAA"), ("DSYNC", "CDS NOTIFY 5300 notify.example."),
    ("DSYNC", "TYPE65280 255 0 ."), ("RESINFO", "qnamemin exterr=15-17"), ("WALLET", "BTC 1A1zP1eP5QGefi2DMPTfTL5SLmv7DivfNa"), ("AVC", "app-name:x"), ("NINFO", '"a"'),
    ("RT", "0 ."), ("CH-A", "chaos.example. 0177777"), ("HHIT", "AQID"), ("BRID", "AQ=="), ("PTR", "1.2.0.192.in-addr.arpa."), ("TYPE65280", "\\# 3 01 02 03"),
    ("TYPE65280", "\\# 0"), ("A", "\\# 4 c0000201"), ("MX", "\\# 3 000a00"), ("TXT", "\\# 2 0161"),
]


def alt_jobs(U):
    by_key = {t["key"]: t for t in load_schemas()}
    jobs = []
    for k, (ty, text) in enumerate(ALT_TEXTS):
        if ty.startswith("TYPE"):
            cls, code, names = 1, int(ty[4:]), False
        else:
            t = by_key[ty]
            cls, code = t["cls"], t["code"]
            names = t["relative"] and any(f["kind"] in NAMEISH for f in t["fields"])
        jobs.append({"tid": "%s.alt%d" % (ty, k), "ty": ty, "cls": cls, "code": code, "text": text, "names": names,
                     "what": "alt", "trel": False})
    return jobs


# ---------------------------------------------------------------------------- fresh-interpreter scenario
# The registry of dns.rdata (type -> implementing class) is process-global and filled lazily, so
# the ORDER of first lookups is an input.  "foreign-first": the first time a type is seen in the
# process it is seen in a class that has no implementation for it (HS, CLASS32: only the RFC 3597
# generic form exists there), then the ordinary round-trip events in its home class;
# "home-first" is the control.  Each order runs in a NEW interpreter (not a fork: the parent has
# looked every type up already).
FOREIGN_CLASSES = (4, 32)


def fresh_items(U, wire_jobs, per_type=4):
    """per implemented type: the base vector's job and (text, value) pairs of its first few accepted
    vectors, the texts produced HERE (main process) by to_text() of the decoded record"""
    items = {}
    for j in wire_jobs:
        if j["what"] in ("unknown", "random"):
            continue
        it = items.setdefault(j["ty"], {"ty": j["ty"], "cls": j["cls"], "code": j["code"], "job": None, "texts": []})
        if j["what"] == "base":
            it["job"] = j
        if len(it["texts"]) < per_type:
            try:
                rd = dns.rdata.from_wire(j["cls"], j["code"], bytes(j["wire"]), 0, len(j["wire"]))
                it["texts"].append({"txt": rd.to_text(), "w": list(rd.to_wire()), "vec": j["vec"]})
            except Exception:  # noqa: BLE001
                pass
    return [it for it in items.values() if it["job"] is not None]


def foreign_events(it):
    """the type's RDATA, written in the RFC 3597 generic form, in classes without an implementation"""
    w = bytes(it["job"]["wire"])
    out = []
    for c in FOREIGN_CLASSES:
        ev = {"op": "foreign", "cls": c, "w": list(w), "parse": "ok", "wire1": [-1], "t2": "skip", "wire2": [-1],
              "wirew": [-1]}
        try:
            rd = dns.rdata.from_text(c, it["code"], "\\# %d %s" % (len(w), w.hex()))
            ev["wire1"] = list(rd.to_wire())
        except Exception as e:  # noqa: BLE001
            _exc(ev, "parse", e)
        else:
            try:
                t = rd.to_text()
                ev["t2"] = "ok"
                ev["wire2"] = list(dns.rdata.from_text(c, it["code"], t).to_wire())
            except Exception as e:  # noqa: BLE001
                ev["t2"] = ev["t2"] if ev["t2"] == "ok" else "err"
                ev["t2x"] = type(e).__name__
        try:
            ev["wirew"] = list(dns.rdata.from_wire(c, it["code"], w, 0, len(w)).to_wire())
        except Exception as e:  # noqa: BLE001
            ev["wirewx"] = type(e).__name__
        out.append(ev)
    return out


def ktext_events(it):
    """texts known to denote a value (produced by to_text() in the main process) offered to from_text"""
    out = []
    for x in it["texts"]:
        ev = {"op": "ktext", "txt": x["txt"][:300], "w": x["w"], "vec": x["vec"], "parse": "ok", "enc": "skip", "wire1": [-1], "t2": "skip"}
        try:
            rd = dns.rdata.from_text(it["cls"], it["code"], x["txt"])
        except Exception as e:  # noqa: BLE001
            _exc(ev, "parse", e)
            out.append(ev)
            continue
        try:
            ev["wire1"] = list(rd.to_wire())
            ev["enc"] = "ok"
        except Exception as e:  # noqa: BLE001
            _exc(ev, "enc", e)
        try:
            rd.to_text()
            ev["t2"] = "ok"
        except Exception as e:  # noqa: BLE001
            _exc(ev, "t2", e)
        out.append(ev)
    return out


def fresh_traces(order, items, U):
    """runs INSIDE the fresh interpreter"""
    set_universe(U)
    out = []
    for it in items:
        pre = "fresh:%s:%s" % (order, it["ty"])

        def foreign():
            return [{"tid": pre + ":foreign", "ty": it["ty"], "kind": "fresh", "what": order, "ev": foreign_events(it)}]

        def home():
            trs = [{"tid": pre + ":ktext", "ty": it["ty"], "kind": "fresh", "what": order, "ev": ktext_events(it)}]
            for part in ("rt", "gen"):
                tr = wire_trace(U, dict(it["job"], part=part), "none")
                tr["tid"] = pre + ":" + part
                tr["what"] = order
                trs.append(tr)
            return trs
        try:
            out += (foreign() + home()) if order == "foreign-first" else (home() + foreign())
        except Exception as e:  # noqa: BLE001
            out.append({"tid": pre + ":crash", "ty": it["ty"], "kind": "crash", "ev": [{"op": "driver-error", "exc": repr(e)}]})
    return out


def run_fresh(order, items, U):
    """fresh_traces in a NEW interpreter; a failing child becomes an event nobody matches"""
    import subprocess
    import sys
    env = dict(os.environ)
    env["PYTHONHASHSEED"] = "0"
    env["PYTHONDONTWRITEBYTECODE"] = "1"
    code = ("import sys, json; sys.path.insert(0, %r); from drivers import c05_text as d; j = json.load(sys.stdin); "
            "json.dump(d.fresh_traces(j['order'], j['items'], j['U']), sys.stdout)" % core.ROOT)
    try:
        p = subprocess.run([sys.executable, "-c", code], input=json.dumps({"order": order, "items": items, "U": U}),
                           capture_output=True, text=True, env=env, cwd=core.ROOT, timeout=900)
        return json.loads(p.stdout)
    except Exception as e:  # noqa: BLE001
        return [{"tid": "fresh:%s:crash" % order, "ty": "?", "kind": "crash",
                 "ev": [{"op": "driver-error", "exc": repr(e)[:300]}]}]
