"""C18 driver: run dns.query / dns.asyncquery exchanges against scripted sockets.

A script (from Gen_UdpExchange / Gen_StreamFraming) is a configuration plus the
environment's events.  The driver concretises datagram / message attribute vectors into
real wire bytes (built by hand with struct, not with dnspython's renderer) and real
source addresses, hands duck-typed socket objects to the public ``sock=`` parameters, and
records what the library did with them: which datagrams / chunks it consumed, what it
wrote, what it returned or raised, and the virtual time.  It only drives and projects;
Trace_UdpExchange / Trace_StreamFraming judge.

Rebound in this process only: dns.query.time, dns.asyncquery.time (virtual clock),
dns.query._wait_for (scripted waiter)."""
import asyncio
import errno
import socket
import ssl
import struct

import dns.asyncquery
import dns.exception
import dns.flags
import dns.message
import dns.name
import dns.opcode
import dns.query
import dns.rdatatype
import dns.update

BASE = 1000.0


class VClock:
    """Virtual time in ticks (1 tick = 1 s) above BASE; only moved by the scripted waits."""

    def __init__(self):
        self.now = BASE

    def time(self):
        return self.now

    def ticks(self):
        return int(round(self.now - BASE))


CLOCK = VClock()


class Hang(Exception):
    """The library asked to wait without a bound for something that never happens."""


class ScriptExhausted(Exception):
    """The library asked the socket for more than the script provides."""


def _scripted_wait_for(fd, readable, writable, _, expiration):
    return fd.v_wait(readable, writable, expiration)


def install():
    dns.query.time = CLOCK
    dns.asyncquery.time = CLOCK
    dns.query._wait_for = _scripted_wait_for


install()
_LOOP = None


def run_async(coro):
    global _LOOP
    if _LOOP is None:
        _LOOP = asyncio.new_event_loop()
    return _LOOP.run_until_complete(coro)


# ------------------------------------------------------------------ concretisation
QNAME = "Www.Example."
QID = 0x1234
RD = 0x0100
QR = 0x8000
TC = 0x0200
OPCODES = {"QUERY": 0, "IQUERY": 1, "STATUS": 2, "NOTIFY": 4, "UPDATE": 5}
ERR_RCODES = [1, 2, 4, 5]  # FORMERR SERVFAIL NOTIMP REFUSED
OTHER_RCODES = [0, 3]  # NOERROR NXDOMAIN


def name_wire(text):
    out = b""
    for lab in text.rstrip(".").split("."):
        out += bytes([len(lab)]) + lab.encode()
    return out + b"\x00"


def make_query(qop):
    """The message sent: a QUERY / NOTIFY / STATUS for QNAME IN A, or a dynamic UPDATE of zone QNAME."""
    if qop == "UPDATE":
        return dns.update.UpdateMessage(QNAME, id=QID)
    q = dns.message.make_query(QNAME, "A", id=QID)
    if qop != "QUERY":
        q.set_opcode(dns.opcode.Opcode(OPCODES[qop]))
    return q


def reply_wire(d, mark, qop, variant, pad=0):
    """Wire bytes for the reply attribute vector d.  mark (1..255) is carried in the TTL
    and the address of the answer record, so that the returned message identifies the
    datagram it was parsed from.  variant selects among equivalent concretisations."""
    wf = d["wf"]
    ident = QID if d["idm"] else QID ^ 0x0101
    # the question of an UPDATE is its zone section: <zone> IN SOA
    qt = 6 if qop == "UPDATE" else 1
    if d["opm"]:
        opcode = OPCODES[qop]
    else:  # any of the other opcodes (UPDATE-form replies only come from an UPDATE that matches)
        others = [o for o in (0, 1, 2, 4) if o != OPCODES[qop]]
        opcode = others[variant % len(others)]
    flags = RD | (opcode << 11)
    if d["qr"]:
        flags |= QR
    if d["tc"]:
        flags |= TC
    qm = d["qm"]
    rcode = 0
    question = b""
    qd = 1
    if wf == "badQuestion":
        # a label running past the end of the message / a pointer to itself
        question = None
    elif qm == "same":
        question = name_wire(QNAME) + struct.pack("!HH", qt, 1)
    elif qm == "caseVariant":
        question = name_wire(QNAME.swapcase()) + struct.pack("!HH", qt, 1)
    elif qm == "different":
        v = variant % 3
        if v == 0:
            question = name_wire("Wwx.Example.") + struct.pack("!HH", 1, 1)
        elif v == 1:
            question = name_wire(QNAME) + struct.pack("!HH", 28, 1)
        else:
            question = name_wire(QNAME) + struct.pack("!HH", 1, 3)
    elif qm == "extra":
        qd = 2
        other = name_wire("Wwx.Example.") + struct.pack("!HH", 1, 1)
        mine = name_wire(QNAME) + struct.pack("!HH", 1, 1)
        question = mine + other if variant % 2 == 0 else other + mine
    elif qm == "emptyErr":
        qd = 0
        rcode = ERR_RCODES[variant % 4]
    elif qm == "emptyOther":
        qd = 0
        rcode = OTHER_RCODES[variant % 2]
    else:
        raise ValueError(qm)
    flags |= rcode
    owner = b"\xc0\x0c" if (qd >= 1 and question is not None) else name_wire(QNAME)
    good_rr = owner + struct.pack("!HHIH", 1, 1, mark, 4) + bytes([10, 0, 0, mark & 0xFF])
    an = 1
    if wf == "badRdata":
        v = variant % 3
        if v == 0:  # A record with three octets of RDATA
            body = owner + struct.pack("!HHIH", 1, 1, mark, 3) + bytes([10, 0, 0])
        elif v == 1:  # RDLENGTH runs past the end of the message
            body = owner + struct.pack("!HHIH", 1, 1, mark, 10) + bytes([10, 0, 0, 1])
        else:  # a good record followed by an MX with one octet of RDATA
            body = good_rr + owner + struct.pack("!HHIH", 15, 1, mark, 1) + b"\x00"
            an = 2
    else:
        body = good_rr
    ar = 0
    extra = b""
    if pad:
        # a TXT record in the additional section to reach a length above 255
        txt = bytes([pad]) + b"p" * pad
        extra = name_wire("pad.") + struct.pack("!HHIH", 16, 1, 0, len(txt)) + txt
        ar = 1
    if opcode == OPCODES["UPDATE"] and qd == 0 and wf in ("yes", "trailing"):
        # an UPDATE response without a zone section cannot carry records (reply_mark() = 0)
        an, body = 0, b""
    if wf == "badQuestion":
        header = struct.pack("!HHHHHH", ident, flags, 1, 0, 0, 0)
        return header + (b"\x3fabc" if variant % 2 == 0 else b"\xc0\x0c\x00\x01\x00\x01")
    header = struct.pack("!HHHHHH", ident, flags, qd, an, 0, ar)
    wire = header + (question or b"") + body + extra
    if wf == "shortHeader":
        return wire[: [0, 5, 11][variant % 3]]
    if wf == "trailing":
        return wire + (b"\x00" if variant % 2 == 0 else b"\x00\x01xx")
    return wire


def reply_mark(d, mark, qop):
    """The marker a message parsed from reply_wire(d, mark, qop, ...) carries in its first record."""
    if qop == "UPDATE" and d["opm"] and d["qm"] in ("emptyErr", "emptyOther"):
        return 0
    return mark


ADDRS = {
    ("v4", False): {"dest": "10.0.0.1", "otherAddr": "10.0.0.2", "where": "10.0.0.1"},
    ("v4", True): {"dest": "224.0.0.251", "otherAddr": "10.0.0.2", "where": "224.0.0.251"},
    ("v6", False): {"dest": "2001:db8::1", "otherAddr": "2001:db8::2", "where": "2001:db8::1",
                    "altText": ["2001:DB8:0:0:0:0:0:1", "2001:0db8::0001"]},
    ("v6", True): {"dest": "ff02::fb", "otherAddr": "2001:db8::2", "where": "ff02::fb",
                   "altText": ["FF02:0:0:0:0:0:0:FB", "ff02::00fb"]},
}
PORT = 53


def low_tuple(fam, addr, port):
    return (addr, port) if fam == "v4" else (addr, port, 0, 0)


def source_tuple(cfg, src, variant):
    a = ADDRS[(cfg["fam"], cfg["mcast"])]
    if src == "dest":
        return low_tuple(cfg["fam"], a["dest"], PORT)
    if src == "otherAddr":
        return low_tuple(cfg["fam"], a["otherAddr"], PORT)
    if src == "otherPort":
        return low_tuple(cfg["fam"], a["dest"], 5353 if variant % 2 == 0 else 54)
    if src == "altText":
        return low_tuple(cfg["fam"], a["altText"][variant % 2], PORT)
    raise ValueError(src)


def project_message(r, q):
    mark = 0
    try:
        for rrset in r.answer:
            mark = int(rrset.ttl)
            break
    except Exception:
        mark = -1
    return {
        "mark": mark,
        "qr": bool(r.flags & dns.flags.QR),
        "tc": bool(r.flags & dns.flags.TC),
        "idm": r.id == q.id,
        "opm": r.opcode() == q.opcode(),
        "nerr": len(getattr(r, "errors", None) or []),
    }


NORET = {"mark": 0, "qr": False, "tc": False, "idm": False, "opm": False, "nerr": 0}


def exc_family(e):
    return "Truncated" if isinstance(e, dns.message.Truncated) else "other"


TINY = 0.001


def deadline_args(cfg):
    """(timeout argument, expiration argument) for the configuration: deadline in ticks, or -
    with deadline 0 - no timeout at all (tz "-") / timeout 0, 0.0 or a tiny positive one."""
    if cfg["deadline"]:
        return float(cfg["deadline"]), BASE + cfg["deadline"]
    tz = cfg.get("tz", "-")
    if tz == "-":
        return None, None
    t = {"int0": 0, "float0": 0.0, "tiny": TINY}[tz]
    return t, BASE + t


# ------------------------------------------------------------------ scripted sockets
class Run:
    """One run of one entry point: the script cursor and the raw log."""

    def __init__(self, events):
        self.events = list(events)
        self.k = 0
        self.log = []
        self.calls = 0

    def peek(self):
        self.calls += 1
        if self.calls > 5000:
            raise ScriptExhausted("busy loop")
        if self.k >= len(self.events):
            self.log.append(("exhausted",))
            raise ScriptExhausted("script exhausted")
        return self.events[self.k]

    def pop(self):
        self.k += 1

    def take(self, ev, n):
        """accept/chunk events carry a capacity n: the socket takes/delivers at most n
        octets; if the library offers/asks for fewer, the rest stays for the next call."""
        ev["n"] -= n
        if ev["n"] <= 0 or n <= 0:
            self.pop()

    # the two ways of waiting for the next event, shared by all scripted sockets
    def wait_sync(self, expiration):
        """dns.query._wait_for semantics under the script: returns when the socket became
        ready, raises Timeout at the expiration."""
        ev = self.peek()
        if ev["op"] == "block":
            self.log.append(("block",))
            if expiration is not None:
                if expiration <= CLOCK.now:
                    raise dns.exception.Timeout
                if CLOCK.now + 2 > expiration:
                    CLOCK.now = expiration
                    raise dns.exception.Timeout
            CLOCK.now += 2
            self.pop()
            return
        if ev["op"] == "silence":
            self.log.append(("silence",))
            if expiration is None:
                raise Hang()
            CLOCK.now = max(CLOCK.now, expiration)
            raise dns.exception.Timeout
        # something is ready: return at once
        return

    def wait_async(self, start, timeout):
        """What an async backend socket does while nothing is ready: returns True if the
        event was a wait that elapsed, raises Timeout after *timeout* seconds."""
        ev = self.peek()
        if ev["op"] == "block":
            self.log.append(("block",))
            if timeout is not None and (CLOCK.now - start) + 2 > timeout:
                CLOCK.now = start + timeout
                raise dns.exception.Timeout(timeout=timeout)
            CLOCK.now += 2
            self.pop()
            return True
        if ev["op"] == "silence":
            self.log.append(("silence",))
            if timeout is None:
                raise Hang()
            CLOCK.now = start + timeout
            raise dns.exception.Timeout(timeout=timeout)
        return False


class SyncUdpSock:
    type = socket.SOCK_DGRAM

    def __init__(self, run, fam, dgrams):
        self.run = run
        self.family = socket.AF_INET if fam == "v4" else socket.AF_INET6
        self.dgrams = dgrams  # index -> (wire, address)

    def sendto(self, data, dest):
        self.run.log.append(("send", bytes(data), dest))
        return len(data)

    def send(self, data):
        self.run.log.append(("send", bytes(data), None))
        return len(data)

    def recvfrom(self, n):
        ev = self.run.peek()
        if ev["op"] != "dgram":
            self.run.log.append(("wouldblock",))
            raise BlockingIOError
        self.run.pop()
        self.run.log.append(("recv", ev["i"]))
        wire, addr = self.dgrams[ev["i"]]
        return wire[:n], addr

    def v_wait(self, readable, writable, expiration):
        self.run.log.append(("wait", "r" if readable else "w"))
        self.run.wait_sync(expiration)


class AsyncUdpSock:
    type = socket.SOCK_DGRAM

    def __init__(self, run, fam, dgrams):
        self.run = run
        self.family = socket.AF_INET if fam == "v4" else socket.AF_INET6
        self.dgrams = dgrams

    async def sendto(self, what, destination, timeout):
        self.run.log.append(("send", bytes(what), destination))
        return len(what)

    async def recvfrom(self, size, timeout):
        start = CLOCK.now
        while True:
            ev = self.run.peek()
            if ev["op"] == "dgram":
                self.run.pop()
                self.run.log.append(("recv", ev["i"]))
                wire, addr = self.dgrams[ev["i"]]
                return wire[:size], addr
            self.run.wait_async(start, timeout)

    async def close(self):
        pass

    async def getpeername(self):
        return None

    async def __aenter__(self):
        return self

    async def __aexit__(self, *a):
        pass


class SyncTcpSock:
    """Stream socket: events send-side {"op":"accept","n"}, receive-side {"op":"chunk","n"},
    {"op":"eof"}, and {"op":"block"}, {"op":"silence"} on either side."""
    type = socket.SOCK_STREAM
    family = socket.AF_INET

    def __init__(self, run, stream, established=True, handshake_takes_the_time=False):
        self.run = run
        self.stream = stream
        self.pos = 0
        self.written = b""
        self.established = established  # False: the library makes the connection itself
        self.connecting = False
        self.hs = handshake_takes_the_time

    # --- what dns.query.make_socket / make_ssl_socket / _connect / _tls_handshake call
    def setblocking(self, flag):
        pass

    def bind(self, source):
        pass

    def close(self):
        pass

    def __enter__(self):
        return self

    def __exit__(self, *a):
        pass

    def getsockopt(self, level, opt):
        return 0

    def _connected(self):
        self.run.pop()
        self.established = True
        self.connecting = False
        self.run.log.append(("connected",))

    def connect_ex(self, address):
        if self.hs:  # TCP connects at once, the TLS handshake takes the scripted time
            return 0
        if self.run.peek()["op"] == "connected":
            self._connected()
            return 0
        self.connecting = True
        return errno.EINPROGRESS

    def do_handshake(self):
        if self.established:
            return
        ev = self.run.peek()
        if ev["op"] == "connected":
            self._connected()
            return
        if ev["op"] in ("block", "silence"):
            self.run.log.append(("wouldblock",))
            raise ssl.SSLWantReadError
        raise ScriptExhausted("handshake while the script expects %s" % ev["op"])

    def send(self, data):
        ev = self.run.peek()
        if ev["op"] != "accept":
            if ev["op"] in ("block", "silence"):
                self.run.log.append(("wouldblock",))
                raise BlockingIOError
            raise ScriptExhausted("send while the script expects %s" % ev["op"])
        n = min(ev["n"], len(data))
        self.run.take(ev, n)
        self.run.log.append(("sent", len(data), bytes(data[:n])))
        self.written += bytes(data[:n])
        return n

    def sendall(self, data):  # not used by dns.query today; a rewrite might
        return self.send(data)

    def recv(self, count):
        ev = self.run.peek()
        if ev["op"] == "chunk":
            n = min(ev["n"], count, len(self.stream) - self.pos)
            self.run.take(ev, n)
            data = self.stream[self.pos:self.pos + n]
            self.pos += n
            self.run.log.append(("read", count, n))
            return data
        if ev["op"] == "eof":
            self.run.log.append(("read", count, 0))
            return b""
        if ev["op"] in ("block", "silence"):
            self.run.log.append(("wouldblock",))
            raise BlockingIOError
        raise ScriptExhausted("recv while the script expects %s" % ev["op"])

    def getpeername(self):
        return ("10.0.0.1", 53)

    def v_wait(self, readable, writable, expiration):
        self.run.log.append(("wait", "r" if readable else "w"))
        if self.connecting and not self.established:
            # dns.query._connect waits ONCE for the connection: all the scripted set-up time
            while True:
                ev = self.run.peek()
                if ev["op"] == "connected":
                    self._connected()
                    return
                if ev["op"] not in ("block", "silence"):
                    raise ScriptExhausted("connecting while the script expects %s" % ev["op"])
                self.run.wait_sync(expiration)
        self.run.wait_sync(expiration)


class FakeSSLContext:
    """Stands in for ssl.SSLContext in dns.query.tls(ssl_context=...): the 'TLS socket' is the
    scripted socket itself."""

    def wrap_socket(self, sock, do_handshake_on_connect=False, server_hostname=None):
        return sock


class AsyncTcpSock:
    type = socket.SOCK_STREAM
    family = socket.AF_INET

    def __init__(self, run, stream):
        self.run = run
        self.stream = stream
        self.pos = 0

    async def sendall(self, what, timeout):
        # the backend's sendall hides partial writes: it takes everything, waiting as the
        # script says (accept events are consumed until the whole buffer is taken)
        start = CLOCK.now
        what = bytes(what)
        taken = 0
        while taken < len(what):
            ev = self.run.peek()
            if ev["op"] == "accept":
                n = min(ev["n"], len(what) - taken)
                self.run.take(ev, n)
                self.run.log.append(("sent", len(what) - taken, what[taken:taken + n]))
                taken += n
                continue
            if ev["op"] in ("block", "silence"):
                self.run.wait_async(start, timeout)
                continue
            raise ScriptExhausted("sendall while the script expects %s" % ev["op"])

    async def recv(self, size, timeout):
        start = CLOCK.now
        while True:
            ev = self.run.peek()
            if ev["op"] == "chunk":
                n = min(ev["n"], size, len(self.stream) - self.pos)
                self.run.take(ev, n)
                data = self.stream[self.pos:self.pos + n]
                self.pos += n
                self.run.log.append(("read", size, n))
                return data
            if ev["op"] == "eof":
                self.run.log.append(("read", size, 0))
                return b""
            if ev["op"] in ("block", "silence"):
                self.run.wait_async(start, timeout)
                continue
            raise ScriptExhausted("recv while the script expects %s" % ev["op"])

    async def getpeername(self):
        return ("10.0.0.1", 53)

    async def close(self):
        pass

    async def __aenter__(self):
        return self

    async def __aexit__(self, *a):
        pass


class FakeBackend:
    """dns.asyncbackend.Backend as far as dns.asyncquery.tcp()/tls() use it when they make their
    own connection: make_socket() takes the scripted set-up time (TCP connect + TLS handshake)
    within the timeout it is given, like the asyncio backend's open_connection under wait_for."""

    def __init__(self, run, stream):
        self.run = run
        self.stream = stream

    def name(self):
        return "scripted"

    def datagram_connection_required(self):
        return False

    async def make_socket(self, af, socktype, proto=0, source=None, destination=None, timeout=None,
                          ssl_context=None, server_hostname=None):
        start = CLOCK.now
        while True:
            ev = self.run.peek()
            if ev["op"] == "connected":
                self.run.pop()
                self.run.log.append(("connected",))
                return AsyncTcpSock(self.run, self.stream)
            if ev["op"] not in ("block", "silence"):
                raise ScriptExhausted("connecting while the script expects %s" % ev["op"])
            self.run.wait_async(start, timeout)


# ------------------------------------------------------------------ UDP exchanges
FALLBACK_MARK = 99


def _fallback_stream(qop):
    good = {"wf": "yes", "qr": True, "idm": True, "opm": True, "qm": "same", "tc": False}
    w = reply_wire(good, FALLBACK_MARK, qop, 0)
    return struct.pack("!H", len(w)) + w


def run_udp_once(script, flavor, qop, variant):
    """Run one UDP exchange script on one flavor; returns (events, summary)."""
    cfg = script["cfg"]
    qop = cfg.get("qop", qop)
    events = []
    i = 0
    dgrams = {}
    for e in script["ev"]:
        e = dict(e)
        if e["op"] == "dgram":
            i += 1
            e["i"] = i
            e["mk"] = reply_mark(e["d"], i, qop)
            dgrams[i] = (reply_wire(e["d"], i, qop, variant + i), source_tuple(cfg, e["d"]["src"], variant + i))
        events.append(e)
    by_index = {e["i"]: e for e in events if e["op"] == "dgram"}
    run = Run(events)
    q = make_query(qop)
    CLOCK.now = BASE
    a = ADDRS[(cfg["fam"], cfg["mcast"])]
    where = a["where"]
    destination = None if cfg["anysrc"] else low_tuple(cfg["fam"], where, PORT)
    timeout, expiration = deadline_args(cfg)
    tcp_run = Run([{"op": "accept", "n": 1 << 20}, {"op": "chunk", "n": 1 << 20}, {"op": "chunk", "n": 1 << 20}])
    stream = _fallback_stream(qop)
    api = cfg["api"]
    result = None
    exc = None
    try:
        if flavor == "sync":
            sock = SyncUdpSock(run, cfg["fam"], dgrams)
            if api == "udp":
                result = dns.query.udp(q, where, timeout, PORT, ignore_unexpected=cfg["iu"], ignore_trailing=cfg["it"],
                                       raise_on_truncation=cfg["rot"], sock=sock, ignore_errors=cfg["ie"])
            elif api == "recv":
                result = dns.query.receive_udp(sock, destination, expiration, ignore_unexpected=cfg["iu"],
                                               ignore_trailing=cfg["it"], raise_on_truncation=cfg["rot"],
                                               ignore_errors=cfg["ie"], query=q if cfg["hasq"] else None)
            else:
                result = dns.query.udp_with_fallback(q, where, timeout, PORT, ignore_unexpected=cfg["iu"],
                                                     ignore_trailing=cfg["it"], udp_sock=sock,
                                                     tcp_sock=SyncTcpSock(tcp_run, stream), ignore_errors=cfg["ie"])
        else:
            sock = AsyncUdpSock(run, cfg["fam"], dgrams)
            if api == "udp":
                result = run_async(dns.asyncquery.udp(q, where, timeout, PORT, ignore_unexpected=cfg["iu"],
                                                      ignore_trailing=cfg["it"], raise_on_truncation=cfg["rot"],
                                                      sock=sock, ignore_errors=cfg["ie"]))
            elif api == "recv":
                result = run_async(dns.asyncquery.receive_udp(sock, destination, expiration, ignore_unexpected=cfg["iu"],
                                                              ignore_trailing=cfg["it"], raise_on_truncation=cfg["rot"],
                                                              ignore_errors=cfg["ie"], query=q if cfg["hasq"] else None))
            else:
                result = run_async(dns.asyncquery.udp_with_fallback(q, where, timeout, PORT, ignore_unexpected=cfg["iu"],
                                                                    ignore_trailing=cfg["it"], udp_sock=sock,
                                                                    tcp_sock=AsyncTcpSock(tcp_run, stream),
                                                                    ignore_errors=cfg["ie"]))
    except Exception as e:  # noqa: BLE001 - every outcome is an event
        exc = e
    used_tcp = bool(tcp_run.log)
    # ---- outcome
    if exc is None:
        kind = "ret"
        msg = result[0] if isinstance(result, tuple) else result
        ret = project_message(msg, q)
        excname, fam = "", "-"
        if api == "fallback":
            ret["tcp"] = bool(result[1])
    else:
        ret = dict(NORET)
        excname, fam = type(exc).__name__, exc_family(exc)
        if isinstance(exc, Hang):
            kind = "hang"
        elif isinstance(exc, dns.exception.Timeout):
            kind = "timeout"
        else:
            kind = "raise"
    if api == "fallback":
        ret.setdefault("tcp", used_tcp)
    # ---- project the raw log into one event per specification action
    raw = run.log
    last_recv = max([k for k, x in enumerate(raw) if x[0] == "recv"], default=-1)
    later_socket_use = any(x[0] in ("wouldblock", "wait", "block", "silence", "recv", "exhausted") for x in raw[last_recv + 1:])
    out = []
    consumed = 0
    for k, x in enumerate(raw):
        if x[0] == "send":
            out.append({"op": "send", "wire": list(x[1]), "dest": [str(v) for v in (x[2] or ())]})
        elif x[0] == "block":
            out.append({"op": "block"})
        elif x[0] == "silence":
            out.append({"op": "silence"})
        elif x[0] == "recv":
            consumed += 1
            ev = {"op": "dgram", "i": x[1], "d": by_index[x[1]]["d"], "mk": by_index[x[1]]["mk"]}
            if k != last_recv or later_socket_use:
                ev.update(obs="skip", exc="", fam="-")
            elif api == "fallback" and used_tcp:
                ev.update(obs="raise", exc="(fell back to TCP)", fam="Truncated")
            elif kind == "ret":
                ev.update(obs="ret", exc="", fam="-")
            else:
                ev.update(obs="raise", exc=excname, fam=fam)
            out.append(ev)
    end = {"op": "end", "kind": kind, "exc": excname, "fam": fam, "now": CLOCK.ticks(), "ret": ret}
    out.append(end)
    summary = [kind if not (api == "fallback" and used_tcp and kind == "ret") else "ret_tcp", consumed]
    qinfo = {"wire": list(q.to_wire()), "dest": [str(v) for v in low_tuple(cfg["fam"], where, PORT)]}
    return out, summary, qinfo


def run_udp_job(job):
    """job = (tid, script, qop, variant) -> [sync trace, async trace]"""
    tid, script, qop, variant = job
    traces = []
    try:
        res = {}
        for flavor in ("sync", "async"):
            res[flavor] = run_udp_once(script, flavor, qop, variant)
        for flavor, other in (("sync", "async"), ("async", "sync")):
            ev, summary, qinfo = res[flavor]
            traces.append({"tid": "%s.%s" % (tid, flavor), "flavor": flavor, "cfg": script["cfg"], "qop": qop,
                           "variant": variant, "q": qinfo, "peer": res[other][1], "ev": ev})
    except Exception as e:  # a driver failure is reported as an unmatched trace
        traces.append({"tid": "%s.driver" % tid, "flavor": "sync", "cfg": script["cfg"], "qop": qop, "variant": variant,
                       "q": {"wire": [], "dest": []}, "peer": ["-", 0],
                       "ev": [{"op": "driver-error", "exc": repr(e)}]})
    return traces


# ------------------------------------------------------------------ stream exchanges
STREAM_MARK = 7
EXTRA = b"\x00\x2d\x12\x34\x81\x00"


def project_stream_message(r, q):
    p = project_message(r, q)
    pad = 0
    try:
        for rrset in r.additional:
            for rd in rrset:
                if rd.rdtype == dns.rdatatype.TXT:
                    pad = len(rd.strings[0])
    except Exception:
        pad = -1
    p["pad"] = pad
    return p


NORET_STREAM = dict(NORET, pad=0)


def _capacity_events(events):
    out = []
    for e in events:
        e = dict(e)
        out.append(e)
    return out


def run_stream_once(script, flavor):
    cfg = script["cfg"]
    api = cfg["api"]
    qop = cfg.get("qop", "QUERY")
    own = cfg.get("conn", "given") == "own"
    wire = reply_wire(cfg["msg"], STREAM_MARK, qop, cfg["v"], cfg["pad"])
    if len(wire) != cfg["L"]:
        raise RuntimeError("concretised message has %d octets, the case says %d" % (len(wire), cfg["L"]))
    stream = struct.pack("!H", cfg["L"]) + wire + EXTRA[: cfg["extra"]]
    q = make_query(qop)
    if cfg["qlen"] == len(q.to_wire()) and (api != "send" or cfg["v"] % 2 == 0):
        what = q
        qwire = q.to_wire()
    else:
        qwire = bytes((i * 7 + 3) % 256 for i in range(cfg["qlen"]))
        what = qwire
    if api != "send" and len(q.to_wire()) != cfg["qlen"]:
        raise RuntimeError("query has %d octets, the case says %d" % (len(q.to_wire()), cfg["qlen"]))
    run = Run(_capacity_events(script["ev"]))
    CLOCK.now = BASE
    timeout, expiration = deadline_args(cfg)
    result = None
    exc = None
    try:
        if flavor == "sync":
            sock = SyncTcpSock(run, stream, established=not own, handshake_takes_the_time=(api == "tls" and cfg["v"] % 2 == 0))
            if own:
                saved = dns.query.socket_factory
                dns.query.socket_factory = lambda af, kind, proto: sock
                try:
                    if api == "tls":
                        result = dns.query.tls(q, "10.0.0.1", timeout, 853, ignore_trailing=cfg["it"],
                                               ssl_context=FakeSSLContext())
                    else:
                        result = dns.query.tcp(q, "10.0.0.1", timeout, PORT, ignore_trailing=cfg["it"])
                finally:
                    dns.query.socket_factory = saved
            elif api == "send":
                result = dns.query.send_tcp(sock, what, expiration)
            elif api == "recv":
                result = dns.query.receive_tcp(sock, expiration, ignore_trailing=cfg["it"])
            else:
                result = dns.query.tcp(q, "10.0.0.1", timeout, PORT, ignore_trailing=cfg["it"], sock=sock)
        else:
            sock = AsyncTcpSock(run, stream)
            if own:
                backend = FakeBackend(run, stream)
                if api == "tls":
                    result = run_async(dns.asyncquery.tls(q, "10.0.0.1", timeout, 853, ignore_trailing=cfg["it"],
                                                          backend=backend, ssl_context=FakeSSLContext()))
                else:
                    result = run_async(dns.asyncquery.tcp(q, "10.0.0.1", timeout, PORT, ignore_trailing=cfg["it"],
                                                          backend=backend))
            elif api == "send":
                result = run_async(dns.asyncquery.send_tcp(sock, what, expiration))
            elif api == "recv":
                result = run_async(dns.asyncquery.receive_tcp(sock, expiration, ignore_trailing=cfg["it"]))
            else:
                result = run_async(dns.asyncquery.tcp(q, "10.0.0.1", timeout, PORT, ignore_trailing=cfg["it"], sock=sock))
    except Exception as e:  # noqa: BLE001 - every outcome is an event
        exc = e
    nbytes = 0
    if exc is None:
        kind = "ret"
        excname = ""
        if api == "send":
            ret = dict(NORET_STREAM)
            nbytes = int(result[0])
        else:
            msg = result[0] if isinstance(result, tuple) else result
            ret = project_stream_message(msg, q)
    else:
        ret = dict(NORET_STREAM)
        excname = type(exc).__name__
        kind = "hang" if isinstance(exc, Hang) else "timeout" if isinstance(exc, dns.exception.Timeout) else "raise"
    out = []
    nsent = 0
    nread = 0
    for x in run.log:
        if x[0] == "sent":
            out.append({"op": "accept", "offered": x[1], "bytes": list(x[2])})
            nsent += len(x[2])
        elif x[0] == "read":
            out.append({"op": "read", "want": x[1], "n": x[2]})
            nread += x[2]
        elif x[0] == "block":
            out.append({"op": "block"})
        elif x[0] == "silence":
            out.append({"op": "silence"})
        elif x[0] == "connected":
            out.append({"op": "connected"})
        elif x[0] == "exhausted":
            out.append({"op": "exhausted"})
    out.append({"op": "end", "kind": kind, "exc": excname, "now": CLOCK.ticks(), "ret": ret, "nbytes": nbytes})
    return out, [kind, nread, nsent], list(qwire)


def run_stream_job(job):
    """job = (tid, script) -> [sync trace, async trace]"""
    tid, script = job
    traces = []
    try:
        res = {f: run_stream_once(script, f) for f in ("sync", "async")}
        for flavor, other in (("sync", "async"), ("async", "sync")):
            ev, summary, qwire = res[flavor]
            traces.append({"tid": "%s.%s" % (tid, flavor), "flavor": flavor, "cfg": script["cfg"], "qwire": qwire,
                           "mark": STREAM_MARK, "peer": res[other][1], "ev": ev})
    except Exception as e:  # a driver failure is reported as an unmatched trace
        traces.append({"tid": "%s.driver" % tid, "flavor": "sync", "cfg": script["cfg"], "qwire": [], "mark": STREAM_MARK,
                       "peer": ["-", 0, 0], "ev": [{"op": "driver-error", "exc": repr(e)}]})
    return traces
