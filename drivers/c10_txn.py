"""C10 driver: replay a transaction script (from Gen_ZoneTxn) on a real zone class and
record one event per call: outcome + projection of the transaction's content, and the
projection of the zone after the end.  Only drives and projects; Trace_ZoneTxn judges."""
import dns.btreezone
import dns.name
import dns.rdata
import dns.rdataclass
import dns.rdataset
import dns.rdatatype
import dns.rrset
import dns.tokenizer
import dns.versioned
import dns.zone
import dns.zonefile

ORIGIN = dns.name.from_text("example.")
ZCLASSES = {"plain": dns.zone.Zone, "versioned": dns.versioned.Zone, "btree": dns.btreezone.Zone}


class Boom(Exception):
    pass


def split_type(ty):
    if "/" in ty:
        a, b = ty.split("/")
        return dns.rdatatype.from_text(a), dns.rdatatype.from_text(b)
    return dns.rdatatype.from_text(ty), dns.rdatatype.NONE


_RD_TEXT = {
    "NS": "ns%d.other.",
    "A": "10.0.0.%d",
    "AAAA": "2001:db8::%d",
    "TXT": '"t%d"',
    "MX": "10 mx%d.other.",
    "CNAME": "target%d.other.",
    "DNAME": "dtarget%d.other.",
    "NSEC": "next%d.other. A",
    "NSEC3": "1 0 0 - 0000000%d A",
    "KEY": "256 3 8 AQAB%d000",
    "DS": "1 8 2 %064d",
}
_cache = {}


def make_rdata(ty, rid):
    key = (ty, tuple(rid))
    rd = _cache.get(key)
    if rd is not None:
        return rd
    rdtype, covers = split_type(ty)
    if ty == "SOA":
        serial = rid[0] * 65536 + rid[1]
        text = "ns.other. admin.other. %d 3600 600 86400 300" % serial
    elif rdtype == dns.rdatatype.RRSIG:
        text = "%s 8 2 300 20300101000000 20200101000000 %d example. AAAA" % (dns.rdatatype.to_text(covers), 1000 + rid[0])
    else:
        text = _RD_TEXT[ty] % rid[0]
    rd = dns.rdata.from_text(dns.rdataclass.IN, rdtype, text)
    _cache[key] = rd
    return rd


def rd_id(ty, rd):
    if ty == "SOA":
        try:
            return [rd.serial >> 16, rd.serial & 0xFFFF]
        except Exception:
            return [-1]
    for k in range(0, 10):
        try:
            if make_rdata(ty, [k]) == rd:
                return [k]
        except Exception:
            break
    return [-1]


def type_text(rds):
    t = dns.rdatatype.to_text(rds.rdtype)
    if rds.covers != dns.rdatatype.NONE:
        t += "/" + dns.rdatatype.to_text(rds.covers)
    return t


def name_text(name, relativize):
    """Project a stored owner name.  Names stored in the wrong relativity for the zone
    are flagged so that they cannot match the model."""
    if relativize:
        if name.is_absolute():
            return "ABS:" + name.to_text()
        return name.to_text()  # '@' for empty
    else:
        if not name.is_absolute():
            return "REL:" + name.to_text()
        if not name.is_subdomain(ORIGIN):
            return "OUT:" + name.to_text()
        return name.relativize(ORIGIN).to_text()


def project_items(items, relativize):
    out = []
    for name, rds in items:
        ty = type_text(rds)
        out.append([name_text(name, relativize), ty, int(rds.ttl), sorted(rd_id(ty, rd) for rd in rds)])
    out.sort()
    return out


def project_txn(txn, relativize):
    return project_items(list(txn.iterate_rdatasets()), relativize)


def project_zone(zone, relativize):
    items = []
    for name, node in zone.nodes.items():
        if len(node.rdatasets) == 0:
            items.append((name, None))
            continue
        for rds in node.rdatasets:
            items.append((name, rds))
    out = []
    for name, rds in items:
        if rds is None:
            out.append([name_text(name, relativize), "EMPTYNODE", 0, []])
        else:
            ty = type_text(rds)
            out.append([name_text(name, relativize), ty, int(rds.ttl), sorted(rd_id(ty, rd) for rd in rds)])
    out.sort()
    return out


def spell(n, sp):
    rel = dns.name.empty if n == "@" else dns.name.from_text(n, None)
    if sp == "abs":
        return rel.derelativize(ORIGIN)
    return rel


def build_rdataset(ty, ttl, rds):
    rdtype, covers = split_type(ty)
    r = dns.rdataset.Rdataset(dns.rdataclass.IN, rdtype, covers, ttl)
    for rid in rds:
        r.add(make_rdata(ty, rid), ttl)
    return r


def build_rrset(name, ty, ttl, rds):
    rdtype, covers = split_type(ty)
    r = dns.rrset.RRset(name, dns.rdataclass.IN, rdtype, covers)
    for rid in rds:
        r.add(make_rdata(ty, rid), ttl)
    return r


def make_zone(zclass, relativize, init, origin_known=True):
    zone = ZCLASSES[zclass](ORIGIN if origin_known else None, relativize=relativize)
    if not init:
        return zone
    with zone.writer(True) as txn:
        for n, ty, ttl, rds in init:
            name = spell(n, "rel" if relativize else "abs")
            txn.add(name, build_rdataset(ty, ttl, rds))
    return zone


def call(fn):
    try:
        return "ok", None, fn()
    except Boom:
        return "err", "Boom", None
    except BaseException as e:  # noqa: BLE001 - every outcome is an event
        return "err", type(e).__name__, None


def replay(script, zclass, relativize, tid):
    init_ev = script[0]
    init = sorted([list(x[:3]) + [sorted(list(r) for r in x[3])] for x in init_ev["zone"]])
    origin_known = bool(init_ev.get("origin", True))
    trace = {"tid": tid, "zclass": zclass, "rel": relativize, "init": init, "origin": origin_known, "ev": []}
    zone = make_zone(zclass, relativize, init, origin_known)
    ev = trace["ev"]
    ev.append({"op": "init", "zone": project_zone(zone, relativize)})
    txn = None
    flag = {"raise": False}

    def cb(txn_, name, rdataset):
        if flag["raise"]:
            raise Boom()

    for e in script[1:]:
        op = e["op"]
        rec = dict(e)
        if "rds" in rec:
            rec["rds"] = sorted(list(r) for r in rec["rds"])
        rec["inzone"] = True
        if op == "begin":
            if e["kind"] == "write":
                res, exc, txn = call(lambda: zone.writer(e["repl"]))
            else:
                res, exc, txn = call(lambda: zone.reader())
            if txn is not None:
                txn.__enter__()
                if e["kind"] == "write":
                    txn.check_put_rdataset(cb)
            rec.update(res=res, exc=exc or "", zorigin=zone.origin is not None)
            if txn is not None:
                rec["state"] = project_txn(txn, relativize)
            ev.append(rec)
            continue
        if op == "end":
            how = e["how"]
            if how == "commit":
                res, exc, _ = call(txn.commit)
            elif how == "rollback":
                res, exc, _ = call(txn.rollback)
            elif how == "cm_commit":
                res, exc, _ = call(lambda: txn.__exit__(None, None, None))
            else:  # an exception leaves the with-block
                b = Boom()
                res, exc, _ = call(lambda: txn.__exit__(Boom, b, None))
            rec.update(res=res, exc=exc or "", zone=project_zone(zone, relativize), zorigin=zone.origin is not None)
            ev.append(rec)
            # every further use must be refused, and must not change the zone
            rd = make_rdata("A", [1])
            results, excs = [], []
            for what, fn in (("get", lambda: txn.get(spell("@", "rel"), "SOA")),
                             ("add", lambda: txn.add(spell("a", "rel" if relativize else "abs"), 300, rd)),
                             ("commit", txn.commit),
                             ("rollback", txn.rollback)):
                res, exc, _ = call(fn)
                results.append(res)
                excs.append(exc or "")
            ev.append({"op": "after", "what": ["get", "add", "commit", "rollback"], "res": results, "exc": excs,
                       "zone": project_zone(zone, relativize)})
            continue
        # ---- calls inside the transaction
        if op in ("add", "replace", "cbraise"):
            name = spell(e["name"], e["sp"])
            rds = rec["rds"]
            form = e.get("form", "rdata")
            if form == "rdata" and len(rds) != 1:
                form = "rdataset"
            rec["form"] = form
            meth = txn.replace if op == "replace" else txn.add
            if form == "rdata":
                fn = lambda: meth(name, e["ttl"], make_rdata(e["type"], rds[0]))  # noqa: E731
            elif form == "rdataset":
                fn = lambda: meth(name, build_rdataset(e["type"], e["ttl"], rds))  # noqa: E731
            else:
                fn = lambda: meth(build_rrset(name, e["type"], e["ttl"], rds))  # noqa: E731
            if op == "cbraise":
                flag["raise"] = True
            res, exc, _ = call(fn)
            flag["raise"] = False
        elif op == "learn":
            # the public way a transaction learns an origin: a $ORIGIN line read by dns.zonefile.Reader
            tok = dns.tokenizer.Tokenizer("$ORIGIN example.\n", "<learn>")
            reader = dns.zonefile.Reader(tok, dns.rdataclass.IN, txn)
            res, exc, _ = call(reader.read)
        elif op == "delname":
            name = spell(e["name"], e["sp"])
            meth = txn.delete_exact if e["exact"] else txn.delete
            res, exc, _ = call(lambda: meth(name))
        elif op == "outzone":
            rec["inzone"] = False
            res, exc, _ = call(lambda: txn.delete(dns.name.from_text("x.other.")))
        elif op == "deltype":
            name = spell(e["name"], e["sp"])
            meth = txn.delete_exact if e["exact"] else txn.delete
            rdtype, covers = split_type(e["type"])
            if covers != dns.rdatatype.NONE:
                res, exc, _ = call(lambda: meth(name, rdtype, covers))
            else:
                res, exc, _ = call(lambda: meth(name, rdtype))
        elif op == "delrds":
            name = spell(e["name"], e["sp"])
            meth = txn.delete_exact if e["exact"] else txn.delete
            rds = rec["rds"]
            form = e["form"]
            if form == "rdata" and len(rds) != 1:
                form = "rdataset"
            rec["form"] = form
            if form == "rdata":
                res, exc, _ = call(lambda: meth(name, make_rdata(e["type"], rds[0])))
            elif form == "rdataset":
                res, exc, _ = call(lambda: meth(name, build_rdataset(e["type"], 0, rds)))
            else:
                res, exc, _ = call(lambda: meth(build_rrset(name, e["type"], 0, rds)))
        elif op == "serial":
            value = -1 if e["neg"] else e["value"][0] * 65536 + e["value"][1]
            if e["nameform"] == "default":
                res, exc, _ = call(lambda: txn.update_serial(value, e["relative"]))
            else:
                nm = spell("@", e["nameform"])
                res, exc, _ = call(lambda: txn.update_serial(value, e["relative"], nm))
        elif op == "get":
            name = spell(e["name"], e["sp"])
            rdtype, covers = split_type(e["type"])
            res, exc, got = call(lambda: txn.get(name, rdtype, covers))
            if res == "ok":
                if got is None:
                    rec["val"] = ["none"]
                else:
                    rec["val"] = ["rds", int(got.ttl), sorted(rd_id(e["type"], rd) for rd in got)]
            else:
                rec["val"] = ["-"]
        elif op == "getnode":
            name = spell(e["name"], e["sp"])
            res, exc, got = call(lambda: txn.get_node(name))
            if res == "ok":
                rec["val"] = ["none"] if got is None else ["node", sorted(type_text(r) for r in got.rdatasets)]
            else:
                rec["val"] = ["-"]
        elif op == "names":
            res, exc, got = call(lambda: sorted(name_text(n, relativize) for n in txn.iterate_names()))
            rec["val"] = ["names", got] if res == "ok" else ["-"]
        elif op == "changed":
            res, exc, got = call(txn.changed)
            rec["val"] = ["bool", bool(got)] if res == "ok" else ["-"]
        elif op == "exists":
            name = spell(e["name"], e["sp"])
            res, exc, got = call(lambda: txn.name_exists(name))
            rec["val"] = ["bool", bool(got)] if res == "ok" else ["-"]
        else:
            raise ValueError("unknown op %r" % op)
        rec.update(res=res, exc=exc or "", zorigin=zone.origin is not None)
        rs, rexc, st = call(lambda: project_txn(txn, relativize))
        rec["state"] = st if rs == "ok" else [["PROJECTION-FAILED", rexc or "", 0, []]]
        ev.append(rec)
    return trace


def run_job(job):
    script, zclass, relativize, tid = job
    try:
        return replay(script, zclass, relativize, tid)
    except Exception as e:  # a driver failure is reported as an unmatched trace
        return {"tid": tid, "zclass": zclass, "rel": relativize, "init": [], "origin": True,
                "ev": [{"op": "driver-error", "exc": repr(e)}]}
