"""C14 driver: run one TSIG exchange script (from Gen_Tsig) on the real dnspython code.

Only drives and projects.  For every `send` it signs a message with the library
(Message.use_tsig + to_wire, or Renderer.add_tsig / add_multi_tsig), for every fault it
alters the octets in flight / the receiver's configuration, for every `deliver` it calls
dns.message.from_wire and records the outcome family.  dns.tsig.HMACTSig is replaced (in this
process only) by a recording subclass, so the exact octets fed to HMAC are logged; the
driver additionally computes HMAC over those octets with the standard library.  For
genuine messages every single bit of the wire is flipped and re-delivered.
No verdicts here: Trace_Tsig judges."""
import base64
import hashlib
import hmac as std_hmac
import struct

import dns.exception
import dns.flags
import dns.message
import dns.name
import dns.rdataclass
import dns.rdatatype
import dns.renderer
import dns.rrset
import dns.tsig
import dns.tsigkeyring

# ----------------------------------------------------------------------------- clock


class _Clock:
    now = 0

    @staticmethod
    def time():
        return _Clock.now


# ----------------------------------------------------------------------------- HMAC recording
_BaseHMACTSig = dns.tsig.HMACTSig
EVENTS = []


class RecHMAC(_BaseHMACTSig):
    def __init__(self, key, algorithm):
        super().__init__(key, algorithm)
        self.rec = bytearray()
        self._k = key
        self._a = algorithm
        self._verifying = False

    def update(self, data):
        self.rec += bytes(data)
        return super().update(data)

    def sign(self):
        d = super().sign()
        if not self._verifying:
            EVENTS.append(("sign", bytes(self.rec), d))
        return d

    def verify(self, expected):
        EVENTS.append(("verify", bytes(self.rec), bytes(expected)))
        self._verifying = True
        try:
            return super().verify(expected)
        finally:
            self._verifying = False

    def clone(self):
        c = RecHMAC(self._k, self._a)
        c.update(bytes(self.rec))
        return c


def install():
    dns.tsig.HMACTSig = RecHMAC
    dns.message.time = _Clock
    dns.renderer.time = _Clock


# ----------------------------------------------------------------------------- concretisation
SECRET = b"0123456789abcdef0123"
WRONG_SECRET = b"0123456789abcdef0124"
KEYTEXT = {"lower": "k1.", "mixed": "K1.Sec.", "shared": "K1.example."}
BASES = {"small": 1600000000, "big": (1 << 32) + 77}
VARIANT_AXES = {
    "route": ["message", "renderer"],
    "ring": ["key", "dictkey", "dictbytes", "callable"],
    "spell": ["lower", "mixed", "shared"],
    "other": [0, 6],
    "origid": ["same", "diff"],
    "base": ["small", "big"],
}


def canon_wire(text):
    """canonical wire form of a name given as text (environment input, no dns.name)"""
    out = bytearray()
    for lab in text.rstrip(".").split("."):
        if lab:
            out.append(len(lab))
            out += lab.lower().encode()
    out.append(0)
    return list(out)


def alg_name(alg, spell):
    if alg.startswith("hmac-md5"):
        return dns.tsig.HMAC_MD5
    return dns.name.from_text(alg.upper() if spell != "lower" else alg)


def other_alg(alg):
    return "hmac-sha224" if alg == "hmac-sha1" else "hmac-sha1"


# rendering options of Message.to_wire / Message.use_edns (start field `render`, chosen by the generator):
#   plain  defaults          edns  an OPT RR precedes the TSIG RR
#   pad    EDNS padding to a multiple of 64 octets
#   trunc  content that does not fit max_size=512 with prefer_truncation=True (TC is set, record sets are dropped)
RENDER_KW = {"plain": {}, "edns": {}, "pad": {}, "trunc": {"max_size": 512, "prefer_truncation": True}}


def build_message(kind, i, n, render="plain"):
    """the i-th (1-based) message of the exchange, without TSIG"""
    mid = 0x1230 + i
    m = dns.message.Message(id=mid)
    qn = dns.name.from_text("a.example.")
    if kind == "query":
        m.flags = dns.flags.RD
        m.question.append(dns.rrset.RRset(qn, dns.rdataclass.IN, dns.rdatatype.A))
    else:
        m.flags = dns.flags.QR | dns.flags.AA
        if i == 1:
            m.question.append(dns.rrset.RRset(qn, dns.rdataclass.IN, dns.rdatatype.A))
        m.answer.append(dns.rrset.from_text(qn, 60, "IN", "A", "10.0.0.%d" % i))
    if render == "trunc":
        # 8 record sets of 6 address records (about 100 octets each): only some of them fit 512 octets with the TSIG
        sect = m.answer if kind != "query" else m.authority
        for k in range(8):
            sect.append(dns.rrset.from_text("t%d.example." % k, 60, "IN", "A", *["10.%d.%d.%d" % (i, k, j) for j in range(6)]))
    elif render == "edns":
        m.use_edns(0, payload=1232)
    elif render == "pad":
        m.use_edns(0, payload=1232, pad=64)
    return m


def sign_one(var, key, m, fudge, error, other, origid, reqmac, multi, sctx):
    """returns (wire, new sender ctx)"""
    if var["route"] == "message":
        m.use_tsig(key, fudge=fudge, original_id=origid, tsig_error=error, other_data=other)
        m.request_mac = reqmac
        wire = m.to_wire(multi=multi, tsig_ctx=sctx, **RENDER_KW[var.get("render", "plain")])
        return wire, (m.tsig_ctx if multi else None)
    r = dns.renderer.Renderer(m.id, int(m.flags))
    for q in m.question:
        r.add_question(q.name, q.rdtype, q.rdclass)
    for rrs in m.answer:
        r.add_rrset(dns.renderer.ANSWER, rrs)
    r.write_header()
    oid = m.id if origid is None else origid
    # route "renderer_noalg": the Key object is handed over and the `algorithm` argument is left to its default
    kw = {} if var["route"] == "renderer_noalg" else {"algorithm": key.algorithm}
    if multi:
        ctx = r.add_multi_tsig(sctx, key.name, key, fudge, oid, error, other, reqmac, **kw)
    else:
        r.add_tsig(key.name, key, fudge, oid, error, other, reqmac, **kw)
        ctx = None
    return r.get_wire(), ctx


# ----------------------------------------------------------------------------- locating fields
def _skip_name(w, p):
    while True:
        c = w[p]
        if c == 0:
            return p + 1
        if c >= 192:
            return p + 2
        p += 1 + c


def layout(w):
    """offsets of the fields of the TSIG RR (the last RR of type TSIG; the RRs are walked to the end of the
    octets, not by the header counts, which a fault may already have altered)"""
    (qd,) = struct.unpack("!H", w[4:6])
    p = 12
    for _ in range(qd):
        p = _skip_name(w, p) + 4
    start = None
    while p < len(w):
        q = _skip_name(w, p)
        rtype, _cls, _ttl, rdlen = struct.unpack("!HHIH", w[q:q + 10])
        if rtype == 250:
            start = p
        p = q + 10 + rdlen
    if start is None:
        raise ValueError("no TSIG RR")
    q = _skip_name(w, start)
    a = q + 10
    ae = _skip_name(w, a)
    (msz,) = struct.unpack("!H", w[ae + 8:ae + 10])
    b = ae + 10 + msz
    (olen,) = struct.unpack("!H", w[b + 4:b + 6])
    return dict(start=start, type=q, cls=q + 2, ttl=q + 4, rdlen=q + 8, alg=a, time=ae, fudge=ae + 6, msz=ae + 8,
                mac=ae + 10, maclen=msz, origid=b, error=b + 2, olen=b + 4, other=b + 6, otherlen=olen)


def _set16(b, off, v):
    b[off:off + 2] = struct.pack("!H", v)


def _get16(b, off):
    return struct.unpack("!H", bytes(b[off:off + 2]))[0]


def first_letter(w, p):
    """offset of the first ASCII letter of the (uncompressed part of the) name at p"""
    while True:
        c = w[p]
        if c == 0 or c >= 192:
            return None
        for k in range(p + 1, p + 1 + c):
            if (65 <= w[k] <= 90) or (97 <= w[k] <= 122):
                return k
        p += 1 + c


def tamper(w, region, signed, minbits):
    b = bytearray(w)
    if region == "id":
        b[1] ^= 0x01
        return bytes(b)
    if region == "head":
        b[2] ^= 0x02
        return bytes(b)
    if region == "ar":
        _set16(b, 10, _get16(b, 10) + 1)
        return bytes(b)
    if region == "body":
        b[13] ^= 0x01
        return bytes(b)
    L = layout(w)
    if region == "tsig.time":
        b[L["time"] + 5] ^= 0x01
    elif region == "tsig.fudge":
        b[L["fudge"] + 1] ^= 0x01
    elif region == "tsig.mac":
        b[L["mac"]] ^= 0x80
    elif region == "tsig.origid":
        b[L["origid"] + 1] ^= 0x01
    elif region == "tsig.error":
        _set16(b, L["error"], 16 if _get16(b, L["error"]) == 0 else 0)
    elif region == "tsig.other":
        if L["otherlen"] > 0:
            b[L["other"]] ^= 0x01
        else:
            b[L["other"]:L["other"]] = b"\x01"
            _set16(b, L["olen"], 1)
            _set16(b, L["rdlen"], _get16(b, L["rdlen"]) + 1)
    elif region == "tsig.owner":
        b[first_letter(w, L["start"])] ^= 0x01
    elif region == "tsig.alg":
        b[first_letter(w, L["alg"])] ^= 0x01
    elif region == "tsig.class":
        _set16(b, L["cls"], 1)
    elif region == "tsig.ttl":
        b[L["ttl"] + 3] = 1
    elif region == "mac.short":
        keep = minbits // 8 - 1
        cut = L["maclen"] - keep
        del b[L["mac"] + keep:L["mac"] + L["maclen"]]
        _set16(b, L["msz"], keep)
        _set16(b, L["rdlen"], _get16(b, L["rdlen"]) - cut)
    else:
        raise ValueError(region)
    return bytes(b)


def benign(w, what):
    b = bytearray(w)
    L = layout(w)
    if what == "benign.id":
        b[0] ^= 0x40
    elif what == "benign.owner":
        b[first_letter(w, L["start"])] ^= 0x20
    elif what == "benign.alg":
        b[first_letter(w, L["alg"])] ^= 0x20
    return bytes(b)


def move_tsig(w):
    b = bytearray(w)
    b += b"\x00" + struct.pack("!HHIH", 1, 1, 0, 4) + b"\x0a\x00\x00\x63"
    _set16(b, 10, _get16(b, 10) + 1)
    return bytes(b)


def strip_tsig(w):
    L = layout(w)
    end = L["other"] + L["otherlen"]
    b = bytearray(w[:L["start"]] + w[end:])
    _set16(b, 10, max(0, _get16(b, 10) - 1))
    return bytes(b)


# ----------------------------------------------------------------------------- receiver
def family(ex):
    if isinstance(ex, dns.exception.FormError):
        return "FormErr"
    if isinstance(ex, dns.tsig.PeerError):
        return "Peer"
    if isinstance(ex, dns.tsig.BadTime):
        return "BadTime"
    if isinstance(ex, (dns.tsig.BadKey, dns.message.UnknownTSIGKey)):
        return "BadKey"
    if isinstance(ex, dns.tsig.BadAlgorithm):
        return "BadAlg"
    if isinstance(ex, dns.tsig.BadSignature):
        return "BadSig"
    if isinstance(ex, dns.exception.DNSException):
        return "OtherDns"
    return "OtherExc"


def make_ring(form, name, secret, alg):
    key = dns.tsig.Key(name, secret, alg)
    if form == "key":
        return key
    # dict / callable keyrings also hold an unrelated second key (lookup must be by owner name)
    extra = dns.tsig.Key("zz-unrelated.", WRONG_SECRET, alg)
    # the two dict forms are built by dns.tsigkeyring.from_text from base64 text, as applications do
    b64 = base64.b64encode(secret).decode()
    xb64 = base64.b64encode(extra.secret).decode()
    if form == "dictkey":
        at = key.algorithm.to_text()
        return dns.tsigkeyring.from_text({"zz-unrelated.": (at, xb64), key.name.to_text(): (at, b64)})
    if form == "dictbytes":
        return dns.tsigkeyring.from_text({"zz-unrelated.": xb64, key.name.to_text(): b64})
    d = {extra.name: extra, key.name: key}
    return lambda msg, kn: d.get(kn)


def receive(wire, ring, rmac, multi, rctx):
    """-> (out, exception name, message or None)"""
    try:
        m = dns.message.from_wire(wire, keyring=ring, request_mac=rmac, multi=multi, tsig_ctx=rctx)
    except Exception as ex:  # noqa: BLE001 - every exception is an outcome
        return family(ex), type(ex).__name__, None
    return ("ok" if m.had_tsig else "unsigned"), "", m


def std_mac(hashname, secret, data):
    return list(std_hmac.new(secret, data, getattr(hashlib, hashname)).digest())


# ----------------------------------------------------------------------------- one exchange
def replay(script, var, tid, flips):
    install()
    st = script[0]
    kind, alg, fudge, error = st["kind"], st["alg"], st["fudge"], st["error"]
    multi = kind == "stream"
    render = st.get("render", "plain")
    var = dict(var, render=render)
    base = BASES[var["base"]]
    keytext = KEYTEXT[var["spell"]]
    algn = alg_name(alg, var["spell"])
    skey = dns.tsig.Key(keytext, SECRET, algn)
    other = bytes(range(1, var["other"] + 1))
    _Clock.now = base
    # the request whose MAC a response / stream is bound to
    reqmac = b""
    if kind != "query":
        q = build_message("query", 0, 1)
        q.use_tsig(skey, fudge=fudge)
        q.to_wire()
        reqmac = q.mac
    del EVENTS[:]
    # ---- the signer's side is independent of the receiver: sign every envelope first
    sends = [ev for ev in script[1:] if ev["op"] in ("send", "resign")]
    out_sends = []
    sctx = None
    m = None
    last_origid = 0
    nres = 0
    for i, ev in enumerate(sends, start=1):
        if ev["op"] == "resign":
            # the SAME Message object (use_tsig() was called once, before its first rendering) is modified
            # and rendered again with Message.to_wire; a later clock, as for a real retry / extension
            nres += 1
            _Clock.now = base + 2 * nres
            rec = {"op": "resign", "mod": ev["mod"], "signed": True, "t": _Clock.now}
            try:
                if ev["mod"] == "id":
                    m.id ^= 0x0404
                elif ev["mod"] == "head":
                    m.flags ^= dns.flags.CD
                elif ev["mod"] == "body":
                    m.answer.append(dns.rrset.from_text("b%d.example." % nres, 30, "IN", "A", "10.0.9.%d" % nres))
                n0 = len(EVENTS)
                wire = m.to_wire(multi=multi, tsig_ctx=sctx, **RENDER_KW[render])
                if multi:
                    sctx = m.tsig_ctx
                sg = [x for x in EVENTS[n0:] if x[0] == "sign"]
                dig = sg[-1][1] if sg else b""
                rec.update(wire=list(wire), dig=list(dig), hm=std_mac(st["hash"], SECRET, dig) if sg else [], res="ok", nsign=len(sg))
            except Exception as ex:  # noqa: BLE001
                rec.update(wire=[], dig=[], hm=[], res="err", exc=type(ex).__name__)
                wire = b""
            rec["origid"] = last_origid
            out_sends.append((rec, wire))
            continue
        _Clock.now = base
        m = build_message(kind, i, len(sends), render)
        origid = None if var["origid"] == "same" else (m.id ^ 0x0101)
        rec = {"op": "send", "signed": ev["signed"], "t": base}
        try:
            if ev["signed"]:
                n0 = len(EVENTS)
                wire, sctx = sign_one(var, skey, m, fudge, error, other, origid, reqmac if i == 1 else b"", multi, sctx)
                sg = [x for x in EVENTS[n0:] if x[0] == "sign"]
                dig = sg[-1][1] if sg else b""
                rec.update(wire=list(wire), dig=list(dig), hm=std_mac(st["hash"], SECRET, dig), res="ok", nsign=len(sg))
            else:
                wire = m.to_wire(**RENDER_KW[render])
                if sctx is not None:
                    sctx.update(wire)  # the driver plays the server: unsigned envelopes are digested whole
                rec.update(wire=list(wire), dig=[], hm=[], res="ok", nsign=0)
        except Exception as ex:  # noqa: BLE001
            rec.update(wire=[], dig=[], hm=[], res="err", exc=type(ex).__name__)
            wire = b""
        rec["origid"] = m.id if origid is None else origid
        last_origid = rec["origid"]
        out_sends.append((rec, wire))
    _Clock.now = base
    m1 = build_message(kind, 1, 1)
    start = dict(st)
    start.update(keywire=canon_wire(keytext), algwire=canon_wire(alg), reqmac=list(reqmac), other=list(other),
                 origid=out_sends[0][0]["origid"] if out_sends else 0)
    # origid differs per envelope (id differs): log per send; the start one is for envelope 1
    ev_out = []
    # ---- receiver state
    ring_name, ring_secret, ring_alg, ring_form = keytext, SECRET, algn, var["ring"]
    rmac = reqmac
    rctx = None
    skew = 0
    signtime = base
    cw = b""
    dead = False
    k = 0
    signed_in_flight = False
    for ev in script[1:]:
        op = ev["op"]
        if op in ("send", "resign"):
            rec, cw = out_sends[k]
            k += 1
            signed_in_flight = rec["signed"]
            signtime = rec.pop("t")
            ev_out.append(rec)
        elif op == "tamper":
            cw = tamper(cw, ev["region"], signed_in_flight, st["minbits"])
            ev_out.append({"op": "tamper", "region": ev["region"], "wire": list(cw)})
        elif op == "benign":
            cw = benign(cw, ev["what"])
            ev_out.append({"op": "benign", "what": ev["what"], "wire": list(cw)})
        elif op == "move":
            cw = move_tsig(cw)
            ev_out.append({"op": "move", "wire": list(cw)})
        elif op == "strip":
            cw = strip_tsig(cw)
            signed_in_flight = False
            ev_out.append({"op": "strip", "wire": list(cw)})
        elif op == "cfault":
            w = ev["what"]
            rec = {"op": "cfault", "what": w, "rmac": []}
            if w == "wrongkey":
                ring_secret = WRONG_SECRET
            elif w == "wrongname":
                ring_name = "another-name."
            elif w == "wrongalg":
                ring_alg = dns.name.from_text(other_alg(alg))
                if ring_form == "dictbytes":
                    ring_form = "dictkey"
            elif w == "wrongreqmac":
                rmac = (bytes([rmac[0] ^ 0x01]) + rmac[1:]) if rmac else b"\x55" * 16
                rec["rmac"] = list(rmac)
            elif w == "noreqmac":
                rmac = b""
            ev_out.append(rec)
        elif op == "skew":
            skew = ev["d"]
            ev_out.append({"op": "skew", "d": skew})
        elif op == "deliver":
            rec = {"op": "deliver", "dig": [], "hm": [], "exc": ""}
            if dead:
                rec["out"] = "dead"
                ev_out.append(rec)
                continue
            _Clock.now = signtime + skew
            ring = make_ring(ring_form, ring_name, ring_secret, ring_alg)
            rec0 = bytes(rctx.rec) if rctx is not None else None
            proto = rctx
            n0 = len(EVENTS)
            out, exc, m = receive(cw, ring, rmac, multi, rctx)
            vs = [x for x in EVENTS[n0:] if x[0] == "verify"]
            rec["out"], rec["exc"] = out, exc
            if vs:
                rec["dig"] = list(vs[-1][1])
                rec["hm"] = std_mac(st["hash"], ring_secret, vs[-1][1])
            if flips and out in ("ok", "unsigned"):
                def fresh():
                    if rec0 is None:
                        return None
                    c = RecHMAC(proto._k, proto._a)
                    c.update(rec0)
                    return c
                if out == "ok":
                    okb, unb, fam = [], [], {}
                    nb = len(cw) * 8
                    for bit in range(nb):
                        fw = bytearray(cw)
                        fw[bit >> 3] ^= 0x80 >> (bit & 7)
                        o, x, _ = receive(bytes(fw), ring, rmac, multi, fresh())
                        if o == "ok":
                            okb.append(bit)
                        elif o == "unsigned":
                            unb.append(bit)
                        else:
                            fam[x] = fam.get(x, 0) + 1
                    rec.update(nflips=nb, okbits=okb, unsbits=unb, ubad=[], fam=sorted(fam.items()))
                else:
                    # unsigned envelope: flip it, then deliver the genuine rest up to the next signed one
                    rest = [w for (r, w) in out_sends[k:]]
                    rest_signed = [r["signed"] for (r, w) in out_sends[k:]]
                    ubad = []
                    nb = len(cw) * 8
                    for bit in range(nb):
                        fw = bytearray(cw)
                        fw[bit >> 3] ^= 0x80 >> (bit & 7)
                        c = fresh()
                        o, x, mm = receive(bytes(fw), ring, rmac, multi, c)
                        if o not in ("ok", "unsigned"):
                            continue
                        c = mm.tsig_ctx if multi else None
                        for w2, s2 in zip(rest, rest_signed):
                            o, x, mm = receive(w2, ring, rmac, multi, c)
                            if o not in ("ok", "unsigned"):
                                break
                            if s2:
                                if o == "ok":
                                    ubad.append(bit)
                                break
                            c = mm.tsig_ctx
                    rec.update(nflips=nb, okbits=[], unsbits=[], ubad=ubad, fam=[])
            _Clock.now = base
            if m is not None and multi:
                rctx = m.tsig_ctx
            if out not in ("ok", "unsigned"):
                dead = True
            ev_out.append(rec)
        else:
            raise ValueError(op)
    return {"tid": tid, "flips": bool(flips), "var": var, "start": start, "ev": ev_out}


def run_job(job):
    script, var, tid, flips = job
    try:
        return replay(script, var, tid, flips)
    except Exception as ex:  # a driver failure is reported as an unmatched trace
        import traceback
        return {"tid": tid, "flips": bool(flips), "var": var,
                "start": {"kind": "query", "alg": "hmac-sha1", "key": "k1", "fudge": 0, "error": 0, "hash": "sha1",
                          "reqmac": [], "keywire": [], "algwire": [], "other": [], "origid": 0},
                "ev": [{"op": "driver-error", "exc": repr(ex), "tb": traceback.format_exc()[-600:]}]}
