"""X07 driver: runs the real dns.tokenizer.Tokenizer on an input string under a call policy
(see specs/Gen_Lexer.tla) and records one event per call.  Drives and projects only."""
import io

import dns.exception
import dns.tokenizer

KIND = {dns.tokenizer.EOF: "EOF", dns.tokenizer.EOL: "EOL", dns.tokenizer.WHITESPACE: "WHITESPACE",
        dns.tokenizer.IDENTIFIER: "IDENTIFIER", dns.tokenizer.QUOTED_STRING: "QUOTED_STRING",
        dns.tokenizer.COMMENT: "COMMENT", dns.tokenizer.DELIMITER: "DELIMITER"}
SOURCES = ("str", "file", "reader", "bytes")


class Reader:
    """a minimal file-like object: read(1) only"""

    def __init__(self, text):
        self.text = text
        self.i = 0

    def read(self, n):
        out = self.text[self.i:self.i + n]
        self.i += len(out)
        return out


def make(text, src):
    if src == "str":
        return dns.tokenizer.Tokenizer(text)
    if src == "file":
        return dns.tokenizer.Tokenizer(io.StringIO(text, newline=""))
    if src == "reader":
        return dns.tokenizer.Tokenizer(Reader(text), filename="x07")
    if src == "bytes":
        return dns.tokenizer.Tokenizer(text.encode("utf-8"))
    raise ValueError(src)


def codes(v):
    if isinstance(v, str):
        return [ord(c) for c in v]
    return [-2]      # a value that is not text: matches nothing


def state(tk):
    w = tk.where()
    return {"line": w[1] if isinstance(w[1], int) else -1, "depth": tk.multiline if isinstance(tk.multiline, int) else -1}


def ev_get(tk, wl, wc, hold):
    """one get(); returns (event, token or None)"""
    e = {"op": "get", "wl": bool(wl), "wc": bool(wc)}
    try:
        tok = tk.get(want_leading=wl, want_comment=wc)
    except Exception as ex:   # noqa: BLE001 - every exception is an outcome
        e.update(res="err", exc=type(ex).__name__, fam=isinstance(ex, dns.exception.SyntaxError),
                 end=isinstance(ex, dns.exception.UnexpectedEnd))
        e.update(state(tk))
        return e, None
    e.update(res="tok", k=KIND.get(tok.ttype, "?%r" % (tok.ttype,)), v=codes(tok.value), e=bool(tok.has_escape),
             cm=[1] + codes(tok.comment) if tok.comment is not None else [0])
    e.update(state(tk))
    return e, tok


def replay(job):
    text = "".join(chr(c) for c in job["s"])
    tk = make(text, job["src"])
    pol = job["pol"]
    ev = []
    i = 0
    limit = 2 * len(text) + 6
    while i < limit:
        p = pol[i % len(pol)]
        i += 1
        if p["sk"]:
            try:
                n = tk.skip_whitespace()
                e = {"op": "skip", "res": "ok", "n": n}
            except Exception as ex:   # noqa: BLE001
                e = {"op": "skip", "res": "err", "n": -1, "exc": type(ex).__name__}
            e.update(state(tk))
            ev.append(e)
            if e["res"] == "err":
                break
        e, tok = ev_get(tk, p["wl"], p["wc"], False)
        ev.append(e)
        if tok is None:
            break
        if p["un"]:
            try:
                tk.unget(tok)
                ev.append({"op": "unget", "res": "ok"})
            except Exception as ex:   # noqa: BLE001
                ev.append({"op": "unget", "res": "err", "exc": type(ex).__name__})
                break
            wl, wc = (not p["wl"], not p["wc"]) if p["fl"] else (p["wl"], p["wc"])
            e, tok = ev_get(tk, wl, wc, True)
            ev.append(e)
            if tok is None:
                break
        if tok.ttype == dns.tokenizer.EOF:
            break
    else:
        ev.append({"op": "no-progress"})
    return {"tid": job["tid"], "s": job["s"], "src": job["src"], "ev": ev}


def run_job(job):
    try:
        return replay(job)
    except Exception as ex:   # noqa: BLE001 - a driver crash is an event nobody matches
        return {"tid": job["tid"], "s": job["s"], "src": job.get("src", "?"), "ev": [{"op": "driver-error", "exc": repr(ex)[:200]}]}
