"""C01 driver: text and wire codecs of dns.name on one input; records one event per
evaluation (text codec, compression) or one event per raw parser operation (decoding).
Only drives and projects; Trace_NameText / Trace_NameWire / Trace_DnsName judge.

A name travels as a list of labels, a label / text / wire string as a list of octets;
an optional origin as ["none"] or ["some", name]."""
import io

import dns.exception
import dns.name
import dns.tokenizer
import dns.wirebase

from drivers.c06_order import js, mk, outcome, run_job as run_order_job

ORIGINS = [["none"], ["some", [[]]], ["some", [[101, 120], []]]]


def origin_of(o):
    return None if o[0] == "none" else mk(o[1])


def text_of(octets):
    """str when the text is ASCII (the usual call), bytes when it carries high octets"""
    return bytes(octets).decode("ascii") if all(c < 128 for c in octets) else bytes(octets)


def lower(labels):
    return [[c + 32 if 65 <= c <= 90 else c for c in x] for x in labels]


# ------------------------------------------------------------------ text codec
def ev_write_text(n):
    x = mk(n)
    text = x.to_text()
    omit = x.to_text(omit_final_dot=True)
    back = [outcome(lambda o=o: dns.name.from_text(text, origin_of(o))) for o in ORIGINS]
    tok = [outcome(lambda o=o: dns.tokenizer.Tokenizer(text).get_name(origin_of(o))) for o in ORIGINS]
    return {"op": "write", "n": n, "text": list(text.encode("latin-1")), "omit": list(omit.encode("latin-1")),
            "origins": ORIGINS, "back": back, "tok": tok}


def ev_parse_text(octets, origins=None):
    """from_text of one text under each origin, in this order, in one process"""
    text = text_of(octets)
    origins = ORIGINS if origins is None else origins
    return {"op": "parse", "text": octets, "origins": origins,
            "res": [outcome(lambda o=o: dns.name.from_text(text, origin_of(o))) for o in origins]}


def tokseq_trace(tid, calls):
    """ONE Tokenizer over "t1 t2 ... tn"; call i = (text, origin, relativize, relativize_to) reads
    token i, alternately through get_name() and through get() + as_name()"""
    tok = dns.tokenizer.Tokenizer(" ".join(bytes(c[0]).decode("ascii") for c in calls))
    ev = []
    for i, (octets, origin, relativize, relto) in enumerate(calls):
        o, rt = origin_of(origin), origin_of(relto)
        if i % 2:
            res = outcome(lambda: tok.as_name(tok.get(), o, relativize, rt))
        else:
            res = outcome(lambda: tok.get_name(o, relativize, rt))
        ev.append({"op": "tok", "text": octets, "origin": origin, "relativize": relativize, "relto": relto,
                   "via": "as_name" if i % 2 else "get_name", "seq": i + 1, "res": res})
    return {"tid": tid, "ev": ev}


def ev_tok(octets, origin, relativize, relto):
    text = bytes(octets).decode("ascii")
    return {"op": "tok", "text": octets, "origin": origin, "relativize": relativize, "relto": relto,
            "res": outcome(lambda: dns.tokenizer.Tokenizer(text).get_name(origin_of(origin), relativize, origin_of(relto)))}


# ------------------------------------------------------------------ wire decoding
class Runaway(BaseException):
    """the decoder did not stop (only a broken pointer check can cause this)"""


class RecParser(dns.wirebase.Parser):
    """dns.wirebase.Parser that records every get_uint8 / get_bytes / seek"""

    def __init__(self, wire, current):
        self.log = None
        super().__init__(wire, current)
        self.log = []
        self.nested = 0
        self.budget = 4 * len(wire) + 64

    def _rec(self, ev):
        if self.log is not None:
            self.log.append(ev)
            if len(self.log) > self.budget:
                raise Runaway()

    def get_uint8(self):
        p = self.current
        self.nested += 1
        try:
            v = super().get_uint8()
        except Exception:
            self.nested -= 1
            self._rec({"op": "u8", "pos": p, "v": -1})
            raise
        self.nested -= 1
        self._rec({"op": "u8", "pos": p, "v": v})
        return v

    def get_bytes(self, size):
        if self.nested or self.log is None:
            return super().get_bytes(size)
        p = self.current
        try:
            out = super().get_bytes(size)
        except Exception:
            self._rec({"op": "bytes", "pos": p, "n": size, "ok": False})
            raise
        self._rec({"op": "bytes", "pos": p, "n": size, "ok": True})
        return out

    def seek(self, where):
        try:
            super().seek(where)
        except Exception:
            self._rec({"op": "seek", "to": where, "ok": False})
            raise
        self._rec({"op": "seek", "to": where, "ok": True})


def decode_trace(tid, base, tail, start):
    wire = bytes(base) + bytes(tail)
    rec = RecParser(wire, start)
    try:
        res = outcome(lambda: dns.name.from_wire_parser(rec), lambda nm: nm)
        if res[0] == "ok":
            res = ["ok", js(res[1]), rec.current - start]
        ev = list(rec.log)
    except Runaway:
        ev = list(rec.log[:40])
        res = ["runaway", "Runaway", False]
    if res[0] == "runaway":
        fw = res            # the plain call would not return either
    else:
        fw = outcome(lambda: dns.name.from_wire(wire, start), lambda r: r)
        if fw[0] == "ok":
            fw = ["ok", js(fw[1][0]), fw[1][1]]
    ev.append({"op": "end", "res": res, "fw": fw})
    return {"tid": tid, "kind": "decode", "base": base, "tail": tail, "start": start, "ev": ev}


# ------------------------------------------------------------------ wire encoding
def write_trace(tid, base, steps):
    """steps: [("write", name, origin, compress) | ("plain", name, origin, canonicalize) | ("digest", name, origin)]"""
    f = io.BytesIO()
    f.write(bytes(base))
    table = {}
    ev = []
    for st in steps:
        if st[0] == "digest":
            _, n, o = st
            ev.append({"op": "plain", "via": "to_digestable", "n": n, "origin": o, "canon": True,
                       "res": outcome(lambda: mk(n).to_digestable(origin_of(o)), list)})
            continue
        if st[0] == "plain":
            _, n, o, canon = st
            ev.append({"op": "plain", "via": "to_wire", "n": n, "origin": o, "canon": canon,
                       "res": outcome(lambda: mk(n).to_wire(origin=origin_of(o), canonicalize=canon), list)})
            continue
        _, n, o, compress = st
        p = f.tell()
        res = outcome(lambda: mk(n).to_wire(f, table if compress else None, origin_of(o)), lambda _: None)
        e = {"op": "write", "n": n, "origin": o, "compress": compress}
        if res[0] == "ok":
            whole = f.getvalue()
            e["res"] = ["ok", list(whole[p:])]
            e["table"] = sorted([lower(js(k)), v] for k, v in table.items())
            back = outcome(lambda: dns.name.from_wire(whole, p), lambda r: r)
            e["back"] = ["ok", js(back[1][0]), back[1][1]] if back[0] == "ok" else back
        else:
            f.seek(p)
            f.truncate()
            e["res"] = res
        ev.append(e)
    return {"tid": tid, "kind": "write", "base": base, "ev": ev}


def one(tid, ev):
    return {"tid": tid, "ev": [ev]}


def run_job(job):
    """job = (tid, kind, args)"""
    tid, kind, args = job
    try:
        if kind == "wtext":
            return one(tid, ev_write_text(*args))
        if kind == "ptext":
            return one(tid, ev_parse_text(*args))
        if kind == "tok":
            return {"tid": tid, "ev": [ev_tok(*a) for a in args]}
        if kind == "tokseq":
            return tokseq_trace(tid, args)
        if kind == "decode":
            return decode_trace(tid, *args)
        if kind == "wwire":
            return write_trace(tid, *args)
        return run_order_job(job)
    except Exception as ex:  # noqa: BLE001 - a driver crash is an event nobody matches
        return {"tid": tid, "kind": "crash", "base": 0, "tail": [], "start": 0,
                "ev": [{"op": "crash", "kind": kind, "error": "%s: %s" % (type(ex).__name__, ex)}]}
