"""C09 driver.  Drives the real zone-file reader and writer and projects what they did.

Reader jobs   concretise an abstract line sequence (ZoneFile.tla) to master-file text with a
              small deterministic printer, load every prefix with the real reader
              (dns.zone.from_text / from_file / dns.zonefile.read_rrsets; dns.zone.Zone,
              dns.versioned.Zone, dns.btreezone.Zone; relativize on/off) and record, per
              line, the outcome and the projected content.
Writer jobs   build the zone through the API, write it with the real writer under a style,
              lex the text back into abstract lines, re-read it with the real reader and
              record the projection and Zone ==.
No verdicts here: Trace_ZoneFile.tla judges every event."""
import base64
import binascii
import calendar
import io
import os
import time

import dns.btreezone
import dns.exception
import dns.name
import dns.rdata
import dns.rdataclass
import dns.rdataset
import dns.rdatatype
import dns.versioned
import dns.zone
import dns.zonefile

ORIGIN_LABELS = ["example"]
ORIGIN = dns.name.from_text("example.")
ZCLASSES = {"plain": dns.zone.Zone, "versioned": dns.versioned.Zone, "btree": dns.btreezone.Zone}
TYPENUM = {"A": 1, "NS": 2, "CNAME": 5, "SOA": 6, "MX": 15, "TXT": 16, "SIG": 24, "KEY": 25, "RRSIG": 46, "NSEC": 47, "DNSKEY": 48,
           "TYPE65280": 65280}
NUMTYPE = {v: k for k, v in TYPENUM.items()}
MNEMONIC = {1: "A", 2: "NS", 5: "CNAME", 6: "SOA", 15: "MX", 16: "TXT", 24: "SIG", 25: "KEY", 46: "RRSIG", 47: "NSEC", 48: "DNSKEY"}
TFMT = "%Y%m%d%H%M%S"


def base(ty):
    """"RRSIG/A" (the RRSIG rdataset covering A) -> "RRSIG"."""
    return ty.split("/")[0]


def b64(data):
    return base64.b64encode(bytes(data)).decode()
NNAMES = {"A": 0, "NS": 1, "CNAME": 1, "SOA": 2, "MX": 1, "TXT": 0, "NSEC": 1, "TYPE65280": 0}


# ------------------------------------------------------------------ printer: abstract -> text
def label_text(l):
    return l


def ref_text(ref):
    if ref[0] == "at":
        return "@"
    if ref[0] == "rel":
        return ".".join(ref[1])
    if ref[0] == "abs":
        return ".".join(ref[1]) + "." if ref[1] else "."
    if ref[0] == "blank":
        return ""
    raise ValueError(ref)


def units(v):
    out = ""
    for n, u in ((604800, "w"), (86400, "d"), (3600, "h"), (60, "m")):
        if v >= n:
            out += "%d%s" % (v // n, u)
            v %= n
    if v or not out:
        out += "%ds" % v
    return out


def ttl_text(t):
    if t[0] == "none":
        return None
    return str(t[1]) if t[0] == "t" else units(t[1])


def txt_strings(data):
    out, i = [], 0
    while i < len(data):
        n = data[i]
        out.append(bytes(data[i + 1:i + 1 + n]))
        i += 1 + n
    return out


def quote(b, bare_ok=False):
    if bare_ok and b and all(48 <= c <= 57 or 97 <= c <= 122 for c in b):
        return b.decode()
    s = '"'
    for c in b:
        if c in (34, 92):
            s += "\\" + chr(c)
        elif 32 <= c < 127:
            s += chr(c)
        else:
            s += "\\%03d" % c
    return s + '"'


def wire_name(labels):
    return b"".join(bytes([len(l)]) + l.encode() for l in labels) + b"\x00"


def nsec_bitmap(types):
    out = b""
    for w in sorted({t // 256 for t in types}):
        bm = bytearray(32)
        for t in types:
            if t // 256 == w:
                bm[(t % 256) // 8] |= 0x80 >> (t % 8)
        while bm and bm[-1] == 0:
            bm.pop()
        out += bytes([w, len(bm)]) + bytes(bm)
    return out


def wire_of(ty, absnames, data):
    """RFC 1035 / 4034 wire form of an abstract rdata (names absolute, uncompressed)."""
    ty = base(ty)
    if ty == "A" or ty == "TYPE65280" or ty == "TXT":
        return bytes(data)
    if ty in ("DNSKEY", "KEY"):
        return data[0].to_bytes(2, "big") + bytes(data[1:])
    if ty in ("RRSIG", "SIG"):
        return (data[0].to_bytes(2, "big") + bytes(data[1:3]) + b"".join(x.to_bytes(4, "big") for x in data[3:6])
                + data[6].to_bytes(2, "big") + wire_name(absnames[0]) + bytes(data[7:]))
    if ty in ("NS", "CNAME"):
        return wire_name(absnames[0])
    if ty == "MX":
        return data[0].to_bytes(2, "big") + wire_name(absnames[0])
    if ty == "SOA":
        return wire_name(absnames[0]) + wire_name(absnames[1]) + b"".join(x.to_bytes(4, "big") for x in data)
    if ty == "NSEC":
        return wire_name(absnames[0]) + nsec_bitmap(data)
    raise ValueError(ty)


def rdata_tokens(ln, chunk=0):
    ty, names, data = base(ln["ty"]), ln["names"], ln["data"]
    if ln["gen"]:
        w = wire_of(ty, [r[1] for r in names], data)
        hx = binascii.hexlify(w).decode()
        toks = ["\\#", str(len(w))]
        if hx:
            toks += [hx[:4], hx[4:]] if len(hx) > 4 else [hx]
        return [t for t in toks if t != ""]
    nm = [ref_text(r) for r in names]
    if ty == "A":
        return [".".join(str(x) for x in data)]
    if ty in ("NS", "CNAME"):
        return [nm[0]]
    if ty == "MX":
        return [str(data[0]), nm[0]]
    if ty == "SOA":
        return [nm[0], nm[1]] + [str(x) for x in data]
    if ty == "TXT":
        return [quote(s, bare_ok=(ln["lay"] == "parenc")) for s in txt_strings(data)]
    if ty == "NSEC":
        return [nm[0]] + [MNEMONIC[t] for t in data]
    if ty in ("DNSKEY", "KEY"):
        k = b64(data[3:])
        return [str(data[0]), str(data[1]), str(data[2])] + ([k[:4], k[4:]] if len(k) > 4 else [k])
    if ty in ("RRSIG", "SIG"):
        sg = b64(data[7:])
        return ([MNEMONIC[data[0]], str(data[1]), str(data[2]), str(data[3]), time.strftime(TFMT, time.gmtime(data[4])),
                 time.strftime(TFMT, time.gmtime(data[5])), str(data[6]), nm[0]] + ([sg[:8], sg[8:]] if len(sg) > 8 else [sg]))
    raise ValueError(ty)


def type_text(ln):
    ty = base(ln["ty"])
    if ln["tg"] or ty == "TYPE65280":
        return "TYPE%d" % TYPENUM[ty]
    return ty


def mod_text(off, w, b):
    if off == 0 and w == 0 and b == "d":
        return "$"
    if w == 0 and b == "d":
        return "${%d}" % off
    if b == "d":
        return "${%d,%d}" % (off, w)
    return "${%d,%d,%s}" % (off, w, b)


def side_text(side):
    out = ""
    for it in side["items"]:
        out += it[1] if it[0] == "lit" else "." if it[0] == "dot" else mod_text(it[1], it[2], it[3])
    return out + ("." if side["abs"] else "")


def line_text(ln):
    k = ln["k"]
    if k == "origin":
        return "$ORIGIN " + ref_text(ln["name"])
    if k == "ttl":
        return "$TTL %d" % ln["v"]
    if k == "blank":
        return {"empty": "", "spaces": "   ", "comment": "; a comment", "spcomment": "   ; c"}[ln["form"]]
    if k == "bad":
        return {"qempty": '"" 300 IN A 10.0.0.1', "qemptyws": ' "" IN A 10.0.0.1'}[ln["what"]]
    if k == "gen":
        rng = "%d-%d" % (ln["start"], ln["stop"]) + ("/%d" % ln["step"] if ln["step"] != 1 else "")
        lhs = side_text(ln["lhs"])
        r = ln["rhs"]
        if r["kind"] == "addr":
            rhs = ".".join(str(x) for x in r["pfx"]) + "." + mod_text(r["off"], 0, "d")
        else:
            rhs = side_text(r)
        parts = ["$GENERATE", rng, lhs]
        t = ttl_text(ln["ttl"])
        if t:
            parts.append(t)
        if ln["cls"] != "none":
            parts.append(ln["cls"])
        parts += [ln["ty"], rhs]
        return " ".join(parts)
    owner = ref_text(ln["owner"])
    t = ttl_text(ln["ttl"])
    c = None if ln["cls"] == "none" else ln["cls"]
    hdr = [x for x in ((c, t) if ln["ord"] == "ct" else (t, c)) if x]
    hdr.append(type_text(ln))
    toks = rdata_tokens(ln)
    lead = owner if owner else " "
    if ln["lay"] == "single":
        return lead + " " + " ".join(hdr + toks)
    if ln["lay"] == "paren":
        return lead + " " + " ".join(hdr) + " (\n" + "".join("\t%s\n" % x for x in toks) + "  )"
    if ln["lay"] == "paren0":
        # continuation text and the closing parenthesis at column 0
        return lead + " " + " ".join(hdr) + " (\n" + "".join("%s\n" % x for x in toks) + ")"
    # parenc: parenthesis straight after the owner, comments and an empty line inside
    body = hdr + toks
    return (lead + " ( " + body[0] + " ; first (comment \"inside\"\n\n"
            + "".join("    %s ; c%d\n" % (x, i) for i, x in enumerate(body[1:])) + " ) ; done")


def text_of(lines):
    return "".join(line_text(l) + "\n" for l in lines)


# ------------------------------------------------------------------ projection: real -> abstract
def labels_of(name):
    return [l.decode("latin-1") for l in name.labels if l != b""]


def owner_labels(name, relativize, origin):
    """Owner relative to the zone's origin; names kept in the wrong relativity for the zone,
    or outside the origin, are flagged so that they cannot match the model."""
    if relativize:
        if name.is_absolute():
            return ["ABS!"] + labels_of(name)
        return labels_of(name)
    if not name.is_absolute():
        return ["REL!"] + labels_of(name)
    if not name.is_subdomain(origin):
        return ["OUT!"] + labels_of(name)
    return labels_of(name.relativize(origin))


def emb_labels(name, relativize, origin):
    if name.is_absolute():
        if relativize and name.is_subdomain(origin):
            return ["ABS!"] + labels_of(name)
        return labels_of(name)
    if not relativize:
        return ["REL!"] + labels_of(name)
    return labels_of(name) + labels_of(origin)


def project_rdata(rd, relativize, origin=ORIGIN):
    t = int(rd.rdtype)
    ty = NUMTYPE.get(t, "TYPE%d" % t)
    if ty in ("RRSIG", "SIG") and not isinstance(rd, dns.rdata.GenericRdata):
        return ty + "/" + MNEMONIC.get(int(rd.type_covered), "TYPE%d" % rd.type_covered), [
            [emb_labels(rd.signer, relativize, origin)],
            [int(rd.type_covered), int(rd.algorithm), int(rd.labels), int(rd.original_ttl), int(rd.expiration),
             int(rd.inception), int(rd.key_tag)] + list(rd.signature)]
    if ty in ("DNSKEY", "KEY") and not isinstance(rd, dns.rdata.GenericRdata):
        return ty, [[], [int(rd.flags), int(rd.protocol), int(rd.algorithm)] + list(rd.key)]
    if isinstance(rd, dns.rdata.GenericRdata):
        return ty if ty == "TYPE65280" else ty + "!generic", [[], list(rd.data)]
    e = lambda n: emb_labels(n, relativize, origin)  # noqa: E731
    if ty == "A":
        return ty, [[], [int(x) for x in rd.address.split(".")]]
    if ty in ("NS", "CNAME"):
        return ty, [[e(rd.target)], []]
    if ty == "MX":
        return ty, [[e(rd.exchange)], [int(rd.preference)]]
    if ty == "SOA":
        return ty, [[e(rd.mname), e(rd.rname)], [int(rd.serial), int(rd.refresh), int(rd.retry), int(rd.expire), int(rd.minimum)]]
    if ty == "TXT":
        d = []
        for s in rd.strings:
            d += [len(s)] + list(s)
        return ty, [[], d]
    if ty == "NSEC":
        types = []
        for w, bm in rd.windows:
            for i, byte in enumerate(bm):
                for bit in range(8):
                    if byte & (0x80 >> bit):
                        types.append(w * 256 + i * 8 + bit)
        return ty, [[e(rd.next)], types]
    return ty + "!unprojected", [[], []]


def project_items(items, relativize, origin=ORIGIN):
    out = []
    for name, rds in items:
        own = owner_labels(name, relativize, origin)
        for rd in rds:          # an empty rdataset holds no record: it is not content
            ty, val = project_rdata(rd, relativize, origin)
            want = TYPENUM.get(ty.split("/")[1], -1) if "/" in ty and "!" not in ty else int(dns.rdatatype.NONE)
            if int(rds.covers) != want:
                ty += "!covers"          # rdataset filed under another covered type than its rdata says
            out.append([own, ty, int(rds.ttl), val])
    out.sort(key=repr)
    return out


def project_zone(zone):
    items = []
    for name, node in zone.nodes.items():
        for rds in node.rdatasets:
            items.append((name, rds))
    return project_items(items, zone.relativize, zone.origin if zone.origin is not None else ORIGIN)


def project_rrsets(rrsets, relativize):
    return project_items([(r.name, r) for r in rrsets], relativize)


def family(e):
    if isinstance(e, dns.exception.DNSException):
        return "dns"
    if isinstance(e, (ValueError, KeyError)):
        return "value"
    return "other"


# ------------------------------------------------------------------ reader jobs
def load(text, api, zclass, rel, og, workdir, tag):
    """Run one real load; returns (res, exc, fam, projection)."""
    origin = ORIGIN if og else None
    try:
        if api == "rrsets":
            rr = dns.zonefile.read_rrsets(text, origin=ORIGIN, relativize=rel, rdclass=None)
            return "ok", "", "", project_rrsets(rr, rel), ORIGIN_LABELS
        kw = dict(origin=origin, relativize=rel, zone_factory=ZCLASSES[zclass], check_origin=False)
        if api == "text":
            z = dns.zone.from_text(text, **kw)
        elif api == "file":
            z = dns.zone.from_file(io.StringIO(text), **kw)
        elif api == "path":
            fn = os.path.join(workdir, "c09_%d_%s.zone" % (os.getpid(), tag))
            with open(fn, "w", encoding="utf-8", newline="") as f:
                f.write(text)
            try:
                z = dns.zone.from_file(fn, **kw)
            finally:
                os.unlink(fn)
        else:
            raise ValueError(api)
        return "ok", "", "", project_zone(z), (labels_of(z.origin) if z.origin is not None else ["NONE!"])
    except BaseException as e:  # noqa: BLE001 - every outcome is an event
        return "err", type(e).__name__, family(e), [], []


def read_job(job):
    lines, og, rel, zclass, api = job["lines"], job["og"], job["rel"], job["zclass"], job["api"]
    tr = {"tid": job["tid"], "kind": job["kind"], "og": og, "rel": rel, "zclass": zclass, "api": api,
          "zone": job.get("zone", []), "style": {"none": True}, "ev": []}
    for k in range(1, len(lines) + 1):
        text = text_of(lines[:k])
        res, exc, fam, proj, zo = load(text, api, zclass, rel, og, job["work"], "r")
        tr["ev"].append({"op": "line", "ln": lines[k - 1], "res": res, "exc": exc, "fam": fam or "-", "zone": proj, "zorigin": zo})
    if job["kind"] == "spell":
        text = text_of(lines)
        res, exc, fam, proj, zo = load(text, api, zclass, rel, og, job["work"], "s")
        tr["ev"].append({"op": "spelled", "res": res, "exc": exc, "fam": fam or "-", "zone": proj, "zorigin": zo})
        tr["text"] = text
    return tr


# ------------------------------------------------------------------ building a zone through the API
def make_rdata(ty, names, data, rel):
    # built from the wire form (own encoder), not from text: independent of the reader under test
    w = wire_of(ty, names, data)
    return dns.rdata.from_wire(dns.rdataclass.IN, TYPENUM[base(ty)], w, 0, len(w), ORIGIN if rel else None)


def make_name(own, rel):
    name = dns.name.Name([l.encode() for l in own])
    return name if rel else name.derelativize(ORIGIN)


def build_zone(recs, zclass, rel, comments):
    zone = ZCLASSES[zclass](ORIGIN, relativize=rel)
    i = 0
    with zone.writer(True) as txn:
        for own, ty, ttl, (names, data) in recs:
            rd = make_rdata(ty, names, data, rel)
            if comments:
                i += 1
                rd = rd.replace(rdcomment=" note %d" % i)
            txn.add(make_name(own, rel), ttl, rd)
    return zone


# an rdata of each type used for an EMPTY rdataset (added, then removed again)
DUMMY = {"A": ([], [10, 9, 9, 9]), "TXT": ([], [1, 120]), "MX": ([["x", "other"]], [1]),
         "KEY": ([], [256, 3, 8, 7]), "NSEC": ([["x", "other"]], [1]),
         "RRSIG/KEY": ([["x", "other"]], [25, 8, 2, 300, 1893456000, 1577836800, 1, 9]),
         "RRSIG/NSEC": ([["x", "other"]], [47, 8, 2, 300, 1893456000, 1577836800, 1, 9])}
CNAME_KIND = ("CNAME", "RRSIG/CNAME")


def covers_of(ty):
    return TYPENUM[ty.split("/")[1]] if "/" in ty else dns.rdatatype.NONE


def build_zone_with_empties(recs, rel, comments, pattern):
    """A plain dns.zone.Zone with the same records, built through Zone.find_rdataset(create=True) /
    Rdataset.add / Rdataset.remove, with EMPTY rdatasets planted per `pattern`:
    first / mid / last / firstlast position of every node's rdataset list, or ("nodes") whole
    nodes that hold only empty rdatasets.  Empty rdatasets hold no record."""
    zone = dns.zone.Zone(ORIGIN, relativize=rel)

    def plant(name, ety):
        rds = zone.find_rdataset(name, TYPENUM[base(ety)], covers_of(ety), create=True)
        d = make_rdata(ety, DUMMY[ety][0], DUMMY[ety][1], rel)
        rds.add(d, 1)
        rds.remove(d)

    nodes = {}
    for own, ty, ttl, rd in recs:
        nodes.setdefault(tuple(own), {}).setdefault(ty, []).append((ttl, rd))
    if pattern == "nodes":
        plant(make_name(["0"], rel), "A")
    i = 0
    for k, (own, types) in enumerate(nodes.items()):
        name = make_name(list(own), rel)
        has_cname = any(t in CNAME_KIND for t in types)
        pool = [t for t in (("KEY", "NSEC", "RRSIG/KEY", "RRSIG/NSEC") if has_cname else ("TXT", "A", "MX")) if t not in types]
        order = list(types)
        plan = [(t, False) for t in order]
        if pattern in ("first", "firstlast") and pool:
            plan.insert(0, (pool[0], True))
        if pattern == "mid" and pool:
            plan.insert(1 if len(plan) > 1 else 0, (pool[0], True))
        if pattern == "last" and pool:
            plan.append((pool[0], True))
        if pattern == "firstlast" and len(pool) > 1:
            plan.append((pool[1], True))
        for ty, empty in plan:
            if empty:
                plant(name, ty)
                continue
            rds = zone.find_rdataset(name, TYPENUM[base(ty)], covers_of(ty), create=True)
            for ttl, (names, data) in types[ty]:
                rd = make_rdata(ty, names, data, rel)
                if comments:
                    i += 1
                    rd = rd.replace(rdcomment=" note %d" % i)
                rds.add(rd, ttl)
        if pattern == "nodes" and k == 0:
            plant(make_name(["b"], rel), "TXT")
            plant(make_name(["b"], rel), "A")
    if pattern == "nodes":
        plant(make_name(["z"], rel), "MX")
    return zone


def count_empties(zone):
    return [sum(1 for n in zone.nodes.values() for r in n.rdatasets if len(r) == 0),
            sum(1 for n in zone.nodes.values() if all(len(r) == 0 for r in n.rdatasets))]


def make_style(st, rel):
    kw = dict(sorted=st["sorted"], want_origin=st["wantOrigin"], deduplicate_names=st["dedup"],
              omit_rdclass=st["omitClass"], want_generic=st["generic"], want_comments=st["comments"])
    if st["org"] != "none":
        kw["origin"] = ORIGIN
        kw["relativize"] = st["org"] == "rel"
    if st["defTTL"][0] == "t":
        kw["default_ttl"] = st["defTTL"][1]
    if st["just"]:
        kw.update(name_just=-18, ttl_just=-7, rdclass_just=-4, rdtype_just=-10)
    if st["chunk"]:
        kw.update(hex_chunk_size=2, base64_chunk_size=4)
    if st["nl"] == "crlf":
        kw["nl"] = "\r\n"
    return dns.zone.ZoneStyle(**kw)


def kw_expressible(st):
    return (st["defTTL"][0] == "none" and not st["dedup"] and not st["omitClass"] and not st["generic"]
            and not st["just"] and not st["chunk"] and st["org"] in ("none", "rel"))


# ------------------------------------------------------------------ lexer: writer text -> abstract lines
class LexError(Exception):
    pass


def tokenize(line):
    """Tokens of one physical line: (leading_ws, [(kind, bytes)], comment or None)."""
    i, n = 0, len(line)
    lead = n > 0 and line[0] in " \t"
    toks = []
    comment = None
    while i < n:
        c = line[i]
        if c in " \t":
            i += 1
            continue
        if c == ";":
            comment = line[i + 1:]
            break
        if c in "()":
            raise LexError("parenthesis in writer output")
        quoted = c == '"'
        if quoted:
            i += 1
        buf = bytearray()
        while i < n:
            c = line[i]
            if quoted and c == '"':
                i += 1
                break
            if not quoted and c in ' \t;()"':
                break
            if c == "\\":
                if i + 3 < n and line[i + 1:i + 4].isdigit():
                    buf.append(int(line[i + 1:i + 4]))
                    i += 4
                    continue
                if i + 1 >= n:
                    raise LexError("dangling backslash")
                if not quoted:
                    buf += b"\\"          # keep escapes of identifiers verbatim (only "\#" occurs)
                buf += line[i + 1].encode("latin-1")
                i += 2
                continue
            buf += c.encode("latin-1")
            i += 1
        else:
            if quoted:
                raise LexError("unterminated quote")
        toks.append(("q" if quoted else "id", bytes(buf)))
    return lead, toks, comment


def lex_ref(tok):
    s = tok.decode("latin-1")
    if s == "@":
        return ["at"]
    if s == ".":
        return ["abs", []]
    if s.endswith("."):
        return ["abs", s[:-1].split(".")]
    return ["rel", s.split(".")]


def unwire_name(w, i):
    labels = []
    while True:
        n = w[i]
        i += 1
        if n == 0:
            return labels, i
        if n > 63:
            raise LexError("compression in generic rdata")
        labels.append(w[i:i + n].decode("latin-1"))
        i += n


def unwire(ty, w):
    """names (absolute refs) and data of a wire-form rdata."""
    if ty in ("A", "TYPE65280", "TXT"):
        return [], list(w)
    if ty in ("DNSKEY", "KEY"):
        return [], [int.from_bytes(w[:2], "big")] + list(w[2:])
    if ty in ("RRSIG", "SIG"):
        n, i = unwire_name(w, 18)
        return [["abs", n]], ([int.from_bytes(w[:2], "big"), w[2], w[3]] + [int.from_bytes(w[4 + 4 * k:8 + 4 * k], "big") for k in range(3)]
                              + [int.from_bytes(w[16:18], "big")] + list(w[i:]))
    if ty in ("NS", "CNAME"):
        n, i = unwire_name(w, 0)
        if i != len(w):
            raise LexError("trailing octets")
        return [["abs", n]], []
    if ty == "MX":
        n, i = unwire_name(w, 2)
        if i != len(w):
            raise LexError("trailing octets")
        return [["abs", n]], [int.from_bytes(w[:2], "big")]
    if ty == "SOA":
        a, i = unwire_name(w, 0)
        b, i = unwire_name(w, i)
        if len(w) - i != 20:
            raise LexError("SOA length")
        return [["abs", a], ["abs", b]], [int.from_bytes(w[i + 4 * k:i + 4 * k + 4], "big") for k in range(5)]
    if ty == "NSEC":
        a, i = unwire_name(w, 0)
        types = []
        while i < len(w):
            win, ln = w[i], w[i + 1]
            for k, byte in enumerate(w[i + 2:i + 2 + ln]):
                for bit in range(8):
                    if byte & (0x80 >> bit):
                        types.append(win * 256 + k * 8 + bit)
            i += 2 + ln
        return [["abs", a]], types
    raise LexError(ty)


def lex_rdata(ty, toks):
    vals = [t[1] for t in toks]
    if vals and toks[0] == ("id", b"\\#"):
        ln = int(vals[1])
        w = binascii.unhexlify(b"".join(vals[2:]))
        if len(w) != ln:
            raise LexError("generic length")
        names, data = unwire(ty, w)
        return True, names, data
    if ty == "TYPE65280":
        raise LexError("unknown type in native form")
    if ty == "A":
        return False, [], [int(x) for x in vals[0].decode().split(".")]
    if ty in ("NS", "CNAME"):
        if len(vals) != 1:
            raise LexError("arity")
        return False, [lex_ref(vals[0])], []
    if ty == "MX":
        return False, [lex_ref(vals[1])], [int(vals[0])]
    if ty == "SOA":
        if len(vals) != 7:
            raise LexError("arity")
        return False, [lex_ref(vals[0]), lex_ref(vals[1])], [int(x) for x in vals[2:]]
    if ty == "TXT":
        d = []
        for s in vals:
            d += [len(s)] + list(s)
        return False, [], d
    inv = {v: k for k, v in MNEMONIC.items()}
    if ty == "NSEC":
        return False, [lex_ref(vals[0])], [inv[t.decode()] for t in vals[1:]]
    if ty in ("DNSKEY", "KEY"):
        return False, [], [int(vals[0]), int(vals[1]), int(vals[2])] + list(base64.b64decode(b"".join(vals[3:])))
    if ty in ("RRSIG", "SIG"):
        tm = lambda x: calendar.timegm(time.strptime(x.decode(), TFMT))  # noqa: E731
        return False, [lex_ref(vals[7])], ([inv[vals[0].decode()], int(vals[1]), int(vals[2]), int(vals[3]), tm(vals[4]), tm(vals[5]),
                                            int(vals[6])] + list(base64.b64decode(b"".join(vals[8:]))))
    raise LexError(ty)


def lex_line(line):
    lead, toks, comment = tokenize(line)
    if not toks:
        return {"k": "blank", "form": "comment" if comment is not None else "empty"}, comment
    first = toks[0][1].decode("latin-1")
    if toks[0][0] == "id" and first.upper() == "$ORIGIN":
        return {"k": "origin", "name": lex_ref(toks[1][1])}, comment
    if toks[0][0] == "id" and first.upper() == "$TTL":
        return {"k": "ttl", "v": int(toks[1][1])}, comment
    if first.startswith("$"):
        raise LexError("directive " + first)
    i = 0
    if lead:
        owner = ["blank"]
    else:
        owner = lex_ref(toks[0][1])
        i = 1
    ttl = ["none"]
    cls = "none"
    ordr = "tc"
    seen = []
    while i < len(toks):
        s = toks[i][1].decode("latin-1")
        if s.isdigit() and ttl == ["none"]:
            ttl = ["t", int(s)]
            seen.append("t")
        elif s in ("IN", "CLASS1") and cls == "none":
            cls = s
            seen.append("c")
        else:
            break
        i += 1
    if seen == ["c", "t"]:
        ordr = "ct"
    s = toks[i][1].decode("latin-1")
    if s.startswith("TYPE"):
        num = int(s[4:])
        ty = NUMTYPE.get(num)
        if ty is None:
            raise LexError("type " + s)
        tg = True
    else:
        if s not in TYPENUM:
            raise LexError("type " + s)
        ty, tg = s, False
    gen, names, data = lex_rdata(ty, toks[i + 1:])
    if ty in ("RRSIG", "SIG"):
        ty = ty + "/" + MNEMONIC.get(data[0], "TYPE%d" % data[0])
    return {"k": "rr", "owner": owner, "ttl": ttl, "cls": cls, "ord": ordr, "ty": ty, "tg": tg, "gen": gen,
            "names": names, "data": data, "lay": "single"}, comment


def lex_text(text):
    lines, comments = [], 0
    parts = text.split("\n")
    if parts and parts[-1] == "":
        parts.pop()
    for p in parts:
        ln, c = lex_line(p)
        if c is not None:
            comments += 1
        if ln["k"] != "blank":           # an empty line (a node without records) is layout
            lines.append(ln)
    return lines, comments


# ------------------------------------------------------------------ writer jobs
def write_with(zone, api, style, st, workdir):
    """Returns the written text exactly as a text-mode reader of the produced file would see it,
    plus the raw form (for the nl observation)."""
    if api == "styled_text":
        raw = zone.to_styled_text(style)
    elif api == "file_text":
        f = io.StringIO()
        zone.to_file(f, style=style)
        raw = f.getvalue()
    elif api == "file_bin":
        f = io.BytesIO()
        zone.to_file(f, style=style)
        raw = f.getvalue()
    elif api == "path":
        fn = os.path.join(workdir, "c09_%d_w.zone" % os.getpid())
        try:
            zone.to_file(fn, style=style)
            with open(fn, "rb") as f:
                raw = f.read()
        finally:
            if os.path.exists(fn):
                os.unlink(fn)
    elif api == "text_kw":
        raw = zone.to_text(sorted=st["sorted"], relativize=(st["org"] == "rel"), want_comments=st["comments"],
                           want_origin=st["wantOrigin"], nl=("\r\n" if st["nl"] == "crlf" else None))
    elif api == "text_style":
        raw = zone.to_text(style=style)
    else:
        raise ValueError(api)
    return raw


def universal(raw):
    """What a text-mode file object (universal newlines) hands to the reader."""
    if isinstance(raw, bytes):
        raw = raw.decode("utf-8")
    return raw.replace("\r\n", "\n").replace("\r", "\n")


def write_job(job):
    recs, rel, zclass, st, api, rapi = job["zone"], job["rel"], job["zclass"], job["style"], job["api"], job["rapi"]
    tr = {"tid": job["tid"], "kind": "write", "og": job["og"], "rel": rel, "zclass": zclass, "api": api, "rapi": rapi,
          "zone": recs, "style": st, "ev": []}
    ev = tr["ev"]
    pattern = job.get("empties", "none")
    if pattern != "none":
        zone = build_zone_with_empties(recs, rel, st["comments"], pattern)
        clean = build_zone(recs, "plain", rel, False)     # the same records without the empty rdatasets
    else:
        zone = build_zone(recs, zclass, rel, st["comments"])
        clean = zone
    tr["empties"] = pattern
    ev.append({"op": "built", "zone": project_zone(zone), "nempty": count_empties(zone)})
    try:
        style = make_style(st, rel)
        raw = write_with(zone, api, style, st, job["work"])
    except BaseException as e:  # noqa: BLE001
        ev.append({"op": "write", "res": "err", "exc": type(e).__name__, "fam": family(e), "lines": [], "nlok": True,
                   "ncomments": 0})
        return tr
    text = universal(raw)
    rawtext = raw.decode("utf-8") if isinstance(raw, bytes) else raw
    want_nl = "\r\n" if st["nl"] == "crlf" else ("\n" if not isinstance(raw, bytes) else os.linesep)
    nlok = rawtext.count(want_nl) == text.count("\n") and (want_nl == "\r\n" or "\r" not in rawtext)
    tr["text"] = rawtext
    try:
        lines, ncomments = lex_text(text)
        ev.append({"op": "write", "res": "ok", "exc": "", "fam": "-", "lines": lines, "nlok": nlok, "ncomments": ncomments})
    except Exception as e:  # not lexable by this driver: an observation only, the end-to-end re-read still runs
        ev.append({"op": "write", "res": "unlexable", "exc": repr(e)[:200], "fam": "-", "lines": [], "nlok": nlok,
                   "ncomments": 0})
    # end to end: feed the text to the real reader (CRLF only through a text-mode file)
    og = job["og"]
    try:
        kw = dict(origin=ORIGIN if og else None, relativize=rel, zone_factory=ZCLASSES[zclass], check_origin=False)
        if rapi == "text":
            z2 = dns.zone.from_text(text, **kw)
        elif rapi == "file":
            z2 = dns.zone.from_file(io.TextIOWrapper(io.BytesIO(rawtext.encode("utf-8")), encoding="utf-8", newline=None), **kw)
        else:
            fn = os.path.join(job["work"], "c09_%d_rr.zone" % os.getpid())
            with open(fn, "wb") as f:
                f.write(rawtext.encode("utf-8"))
            try:
                z2 = dns.zone.from_file(fn, **kw)
            finally:
                os.unlink(fn)
        ev.append({"op": "reread", "res": "ok", "exc": "", "fam": "-", "zone": project_zone(z2), "eq": bool(z2 == clean),
                   "origin": labels_of(z2.origin) if z2.origin is not None else ["NONE!"]})
    except BaseException as e:  # noqa: BLE001
        ev.append({"op": "reread", "res": "err", "exc": type(e).__name__, "fam": family(e), "zone": [], "eq": False,
                   "origin": []})
    return tr


def run_job(job):
    try:
        if job["kind"] == "write":
            return write_job(job)
        return read_job(job)
    except Exception as e:  # a driver failure is reported as an unmatched trace
        return {"tid": job["tid"], "kind": job["kind"], "og": True, "rel": True, "zclass": job.get("zclass", ""),
                "api": job.get("api", ""), "zone": [], "style": {"none": True},
                "ev": [{"op": "driver-error", "exc": repr(e)[:300]}]}
