"""X06a driver: replay a history of dns.update.UpdateMessage calls (from Gen_UpdateMsg) on
the real class and record, after every call, the four sections projected from the message
object; at the end the octets of to_wire() projected by a small wire parser of our own
(header counts, names with compression, fixed RR fields, RDATA identified by its octets)
and the projection of the message dns.message.from_wire() makes of those octets.
Only drives and projects; Trace_UpdateMsg judges."""
import struct

import dns.message
import dns.name
import dns.opcode
import dns.rdata
import dns.rdataclass
import dns.rdataset
import dns.rdatatype
import dns.update

ORIGIN_TEXT = "example."
ORIGIN = dns.name.from_text(ORIGIN_TEXT)
CLASSES = {1: "IN", 3: "CH", 254: "NONE", 255: "ANY"}
TYPES = {1: "A", 6: "SOA", 15: "MX", 16: "TXT", 255: "ANY"}


def name_wire(text):
    out = b""
    for lab in text.rstrip(".").split("."):
        if lab:
            out += bytes([len(lab)]) + lab.encode()
    return out + b"\x00"


def rd_text(zclass, ty, rid, rsp):
    """Text of RDATA number rid of a type, names inside it relative to the zone or absolute."""
    suffix = "" if rsp == "rel" else "." + ORIGIN_TEXT
    if ty == "A":
        return "10.0.0.%d" % rid if zclass == "IN" else "ch%d%s 52%d" % (rid, suffix, rid)
    if ty == "TXT":
        return '"t%d"' % rid
    if ty == "MX":
        return "10 mx%d%s" % (rid, suffix)
    raise ValueError(ty)


def rd_octets(zclass, ty, rid):
    """The same RDATA as uncompressed octets, built by hand (not by dnspython)."""
    if ty == "A":
        if zclass == "IN":
            return bytes([10, 0, 0, rid])
        return name_wire("ch%d.%s" % (rid, ORIGIN_TEXT)) + struct.pack("!H", int("52%d" % rid, 8))
    if ty == "TXT":
        return bytes([2]) + b"t%d" % rid
    if ty == "MX":
        return struct.pack("!H", 10) + name_wire("mx%d.%s" % (rid, ORIGIN_TEXT))
    return None


def rd_identify(zclass, ty, octets):
    if len(octets) == 0:
        return 0
    for rid in range(1, 6):
        if rd_octets(zclass, ty, rid) == octets:
            return rid
    return -1


def owner_text(name):
    """Absolute owner name -> the model's name ('@' = apex, else relative text)."""
    if not name.is_absolute():
        return "REL:" + name.to_text()
    if not name.is_subdomain(ORIGIN):
        return "OUT:" + name.to_text()
    return name.relativize(ORIGIN).to_text().lower()


def spell_name(n, sp):
    rel = "@" if n == "@" else n
    absolute = ORIGIN_TEXT if n == "@" else n + "." + ORIGIN_TEXT
    if sp == "relstr":
        return rel
    if sp == "absstr":
        return absolute.upper() if n != "@" else absolute
    if sp == "relname":
        return dns.name.empty if n == "@" else dns.name.from_text(n, None)
    return dns.name.from_text(absolute)


def spell_type(ty, tsp):
    if tsp == "lower":
        return ty.lower()
    if tsp == "enum":
        return dns.rdatatype.from_text(ty)
    if tsp == "int":
        return int(dns.rdatatype.from_text(ty))
    return ty


# ---------------------------------------------------------------- projections
def project_section(msg, section, zclass_text):
    """From the message object: one entry per RR.  The class of an entry is the class the
    RRset is documented to be rendered with (rrset.deleting overrides rrset.rdclass)."""
    origin = msg.origin
    out = []
    for rrset in section:
        name = rrset.name
        if not name.is_absolute() and origin is not None:
            name = name.derelativize(origin)
        cl = rrset.deleting if rrset.deleting is not None else rrset.rdclass
        cl = CLASSES.get(int(cl), "CLASS%d" % int(cl))
        ty = TYPES.get(int(rrset.rdtype), "TYPE%d" % int(rrset.rdtype))
        if len(rrset) == 0:
            out.append([owner_text(name), ty, cl, int(rrset.ttl), 0])
        for rd in rrset:
            out.append([owner_text(name), ty, cl, int(rrset.ttl), rd_identify(zclass_text, ty, rd.to_wire(origin=origin or ORIGIN))])
    return out


def project_message(msg, zclass_text):
    return [project_section(msg, s, zclass_text) for s in msg.sections]


class WireError(Exception):
    pass


def read_name(wire, pos):
    labels, jumps, end = [], 0, None
    while True:
        if pos >= len(wire):
            raise WireError("name runs off the end")
        n = wire[pos]
        if n & 0xC0 == 0xC0:
            if end is None:
                end = pos + 2
            pos = ((n & 0x3F) << 8) | wire[pos + 1]
            jumps += 1
            if jumps > 40:
                raise WireError("pointer loop")
            continue
        if n & 0xC0:
            raise WireError("bad label type")
        pos += 1
        if n == 0:
            break
        labels.append(wire[pos:pos + n])
        pos += n
    return labels, (end if end is not None else pos)


def labels_wire(labels):
    return b"".join(bytes([len(x)]) + x.lower() for x in labels) + b"\x00"


def parse_wire(wire):
    """Independent reading of an UPDATE message: header and the four sections."""
    mid, flags, zo, pr, up, ad = struct.unpack("!HHHHHH", wire[:12])
    pos = 12
    sections = [[], [], [], []]
    zclass_text = "?"
    for _ in range(zo):
        labels, pos = read_name(wire, pos)
        ty, cl = struct.unpack("!HH", wire[pos:pos + 4])
        pos += 4
        zclass_text = CLASSES.get(cl, "CLASS%d" % cl)
        sections[0].append([owner_text(dns.name.Name(labels + [b""])), TYPES.get(ty, "TYPE%d" % ty), zclass_text, 0, 0])
    for k, count in ((1, pr), (2, up), (3, ad)):
        for _ in range(count):
            labels, pos = read_name(wire, pos)
            ty, cl, ttl, rdlen = struct.unpack("!HHIH", wire[pos:pos + 10])
            pos += 10
            raw = wire[pos:pos + rdlen]
            tyt = TYPES.get(ty, "TYPE%d" % ty)
            if rdlen and tyt == "MX":          # expand a compressed exchange name
                nl, _ = read_name(wire, pos + 2)
                raw = raw[:2] + labels_wire(nl)
            elif rdlen and tyt == "A" and zclass_text == "CH":
                nl, after = read_name(wire, pos)
                raw = labels_wire(nl) + wire[after:pos + rdlen]
            pos += rdlen
            sections[k].append([owner_text(dns.name.Name(labels + [b""])), tyt, CLASSES.get(cl, "CLASS%d" % cl),
                                ttl if ttl < 2**31 else -1, rd_identify(zclass_text, tyt, raw)])
    if pos != len(wire):
        raise WireError("trailing octets")
    return {"id": mid, "flags": flags, "counts": [zo, pr, up, ad], "sections": sections}


# ---------------------------------------------------------------- replay
def call(fn):
    try:
        return "ok", "", fn()
    except BaseException as ex:  # noqa: BLE001 - every outcome is an event
        return "err", type(ex).__name__, None


def build_args(e, zclass, zclass_text):
    """The positional arguments after the name, in the argument form the history asks for."""
    form = e["form"]
    if form == "name":
        return []
    if form == "type":
        return [spell_type(e["ty"], e["tsp"])]
    args = []
    for g in e["gs"]:
        texts = [rd_text(zclass_text, g["ty"], rid, e["rsp"]) for rid in g["rds"]]
        rdtype = dns.rdatatype.from_text(g["ty"])
        if form == "rdataset":
            rds = dns.rdataset.Rdataset(zclass, rdtype, ttl=g["ttl"])
            for s in texts:   # insertion order = the order the model is told about
                rds.add(dns.rdata.from_text(zclass, rdtype, s, origin=ORIGIN), g["ttl"])
            args.append(rds)
        elif form == "rdata":
            if e["op"] in ("add", "replace"):
                args.append(g["ttl"])
            relativize = e["rsp"] == "rel"
            args += [dns.rdata.from_text(zclass, rdtype, s, origin=ORIGIN, relativize=relativize) for s in texts]
        else:
            if e["op"] in ("add", "replace"):
                args.append(g["ttl"])
            args.append(spell_type(g["ty"], e["tsp"]))
            args += texts
    return args


def replay(hist, tid):
    zclass_text = hist[0]["zclass"]
    zclass = dns.rdataclass.from_text(zclass_text)
    trace = {"tid": tid, "zclass": zclass_text, "ev": []}
    ev = trace["ev"]
    res, exc, msg = call(lambda: dns.update.UpdateMessage(ORIGIN_TEXT if len(hist) % 2 else ORIGIN, rdclass=zclass, id=4660))
    ev.append({"op": "init", "res": res, "exc": exc, "sec": project_message(msg, zclass_text) if msg is not None else [[], [], [], []]})
    if msg is None:
        return trace
    for e in hist[1:]:
        rec = {k: e[k] for k in ("op", "form", "n", "ty", "gs")}
        name = spell_name(e["n"], e["sp"])
        res, exc, args = call(lambda: build_args(e, zclass, zclass_text))
        if res == "ok":
            res, exc, _ = call(lambda: getattr(msg, e["op"])(name, *args))
        else:
            exc = "DRIVER:" + exc
        rs, rexc, sec = call(lambda: project_message(msg, zclass_text))
        rec.update(res=res, exc=exc, sec=sec if rs == "ok" else [[["PROJECTION-FAILED", rexc, "", 0, 0]], [], [], []])
        ev.append(rec)
    rec = {"op": "wire", "res": "ok", "exc": "", "counts": [], "opcode": -1, "popcode": -1, "cls": "", "again": False,
           "wire": [[], [], [], []], "parsed": [[], [], [], []]}
    res, exc, wire = call(msg.to_wire)
    if res == "ok":
        res, exc, w = call(lambda: parse_wire(wire))
    if res == "ok":
        rec.update(counts=w["counts"], opcode=(w["flags"] >> 11) & 15, wire=w["sections"])
        res, exc, parsed = call(lambda: dns.message.from_wire(wire))
    if res == "ok":
        rec.update(cls=type(parsed).__name__, popcode=int(parsed.opcode()))
        # the parsed message carries no origin: its names are absolute
        res, exc, psec = call(lambda: project_message(parsed, zclass_text))
    if res == "ok":
        rec["parsed"] = psec
        # rendering the parsed message again gives the same sections (RDATA order inside is fixed: 1 RR per RRset)
        res, exc, w2 = call(lambda: parse_wire(parsed.to_wire()))
        if res == "ok":
            rec["again"] = w2["sections"] == w["sections"] and w2["counts"] == w["counts"]
    rec.update(res=res, exc=exc)
    ev.append(rec)
    return trace


def run_job(job):
    hist, tid = job
    try:
        return replay(hist, tid)
    except Exception as ex:  # a driver failure is reported as an unmatched trace
        return {"tid": tid, "zclass": "IN", "ev": [{"op": "driver-error", "exc": repr(ex)}]}
