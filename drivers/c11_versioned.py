"""C11 driver, part 1: replay a history script (from Gen_VersionedZone) on a real
dns.versioned.Zone / dns.btreezone.Zone, single-threaded, and record after EVERY call the
retained version ids, the content of every retained version, the registered readers and
what every open reader observes through each read route (iterate_rdatasets, get,
get_node, iterate_names).  Only drives and projects; Trace_VersionedZone judges.

Never opens two write transactions at once (a second zone.writer() would block forever
in a single thread; writer admission is property C12)."""
import dns.btree
import dns.btreezone
import dns.name
import dns.node
import dns.rdata
import dns.rdataclass
import dns.rdataset
import dns.rdatatype
import dns.rrset
import dns.versioned
import dns.zone

ORIGIN = dns.name.from_text("example.")
ZCLASSES = {"versioned": dns.versioned.Zone, "btree": dns.btreezone.Zone}
IN = dns.rdataclass.IN
A = dns.rdatatype.A
NS = dns.rdatatype.NS
SOA = dns.rdatatype.SOA
TXT = dns.rdatatype.TXT
NONE = dns.rdatatype.NONE
TTL = 300
NAMES = ["a", "b", "d", "g.d"]  # owner names of the item universe (relative spelling); ["d", 0] = NS at d


class Boom(Exception):
    pass


_SOA = {}


def soa_rdata(serial):
    rd = _SOA.get(serial)
    if rd is None:
        rd = _SOA[serial] = dns.rdata.from_text(IN, SOA, "ns1.other. admin.other. %d 3600 600 86400 300" % serial)
    return rd


NS_RDATA = dns.rdata.from_text(IN, NS, "ns1.other.")
NS_D = dns.rdata.from_text(IN, NS, "nsd.other.")   # the delegation at d (item ["d", 0])
NS_8 = dns.rdata.from_text(IN, NS, "ns8.other.")


_A = {}
_A_REV = {}
for _k in range(1, 10):
    _A[_k] = dns.rdata.from_text(IN, A, "10.0.0.%d" % _k)
    _A_REV[_A[_k]] = _k


def a_rdata(k):
    return _A[k]


_OWNER = {}


def owner(n, relativize):
    key = (n, relativize)
    nm = _OWNER.get(key)
    if nm is None:
        rel = dns.name.empty if n == "@" else dns.name.from_text(n, None)
        nm = rel if relativize else rel.derelativize(ORIGIN)
        _OWNER[key] = nm
    return nm




def name_text(name, relativize):
    """Stored owner name -> model spelling; a name in the wrong relativity is flagged."""
    if relativize:
        return ("ABS:" + name.to_text()) if name.is_absolute() else name.to_text()
    if not name.is_absolute():
        return "REL:" + name.to_text()
    if not name.is_subdomain(ORIGIN):
        return "OUT:" + name.to_text()
    return name.relativize(ORIGIN).to_text()


def call(fn):
    try:
        return "ok", "", fn()
    except Boom:
        return "err", "Boom", None
    except BaseException as e:  # noqa: BLE001 - every outcome is an event
        return "err", type(e).__name__, None


# ----------------------------------------------------------------------------- projection
def abstract(pairs, relativize):
    """[(owner name, rdataset)] -> [serial, sorted items]; anything that is not part of the
    abstract content (unexpected owner/type/ttl/rdata) becomes a flagged item, so it can
    never equal a model content."""
    serial = -1          # no SOA (0 is a valid serial)
    items = []
    seen_ns = False
    for name, rds in pairs:
        n = name_text(name, relativize)
        ty = dns.rdatatype.to_text(rds.rdtype)
        if rds.covers != NONE or int(rds.ttl) != TTL or rds.rdclass != IN:
            items.append(["?%s/%s/ttl%d" % (n, ty, int(rds.ttl)), 0])
            continue
        if n == "@" and rds.rdtype == SOA and len(rds) == 1:
            if serial != -1:
                items.append(["?dupsoa", 0])
            serial = int(rds[0].serial)
            if serial > 1000000:
                serial = 1000000
        elif n == "@" and rds.rdtype == NS and list(rds) == [NS_RDATA]:
            if seen_ns:
                items.append(["?dupns", 0])
            seen_ns = True
        elif n == "d" and rds.rdtype == NS and list(rds) == [NS_D]:
            items.append(["d", 0])
        elif n in NAMES and rds.rdtype == A and len(rds) > 0:
            for rd in rds:
                items.append([n, _A_REV.get(rd, -1)])
        else:
            items.append(["?%s/%s/%d" % (n, ty, len(rds)), 0])
    if serial != -1 and not seen_ns:
        items.append(["?nons", 0])
    if serial == -1 and seen_ns:
        items.append(["?nosoa", 0])
    items.sort()
    return [serial, items]


def node_pairs(name, node):
    if node is None:
        return []
    if len(node.rdatasets) == 0:
        return [(name, dns.rdataset.Rdataset(IN, dns.rdatatype.NULL, NONE, 0))]  # an empty node is not content
    return [(name, rds) for rds in node.rdatasets]


def project_version(version, relativize):
    """content of a retained version, read directly from its node map"""
    pairs = []
    for name, node in version.nodes.items():
        pairs += node_pairs(name, node)
    return abstract(pairs, relativize)


def observe(txn, relativize):
    """what an open read transaction shows through each of its read routes"""
    def via_iter():
        return abstract(list(txn.iterate_rdatasets()), relativize)

    def via_get():
        pairs = []
        for n in ["@"] + NAMES:
            nm = owner(n, relativize)
            for ty in (SOA, NS, A, TXT):
                rds = txn.get(nm, ty)
                if rds is not None:
                    pairs.append((nm, rds))
        return abstract(pairs, relativize)

    def via_node():
        pairs = []
        for n in ["@"] + NAMES:
            nm = owner(n, relativize)
            pairs += node_pairs(nm, txn.get_node(nm))
        return abstract(pairs, relativize)

    def via_names():
        return sorted(name_text(n, relativize) for n in txn.iterate_names())

    out = {}
    for key, fn in (("iter", via_iter), ("get", via_get), ("node", via_node)):
        res, exc, val = call(fn)
        out[key] = val if res == "ok" else [-9, [["?" + exc, 0]]]
    res, exc, val = call(via_names)
    out["names"] = val if res == "ok" else ["?" + exc]
    # name_exists agrees with the names route (projected as the list of existing names)
    res, exc, val = call(lambda: sorted(n for n in ["@"] + NAMES if txn.name_exists(owner(n, relativize))))
    out["exists"] = val if res == "ok" else ["?" + exc]
    return out


def snapshot(zone, handles, relativize):
    """the abstract state of the zone after a call"""
    rid_of = {id(txn): rid for rid, txn in handles.items()}
    st = {}
    st["vids"] = [int(v.id) for v in zone._versions]
    st["vcont"] = [project_version(v, relativize) for v in zone._versions]
    rd = []
    for txn in zone._readers:
        rd.append([rid_of.get(id(txn), -1), int(txn.version.id)])
    st["rd"] = sorted(rd)
    obs = []
    for rid in sorted(handles):
        txn = handles[rid]
        o = observe(txn, relativize)
        o["rid"] = rid
        o["vid"] = int(txn.version.id)
        obs.append(o)
    st["obs"] = obs
    st["wopen"] = zone._write_txn is not None
    return st


# ----------------------------------------------------------------------------- policies
def version_serial(zone, version):
    oname = dns.name.empty if zone.relativize else zone.origin
    rds = version.get_rdataset(oname, SOA, NONE)
    return -1 if rds is None else rds[0].serial


CUSTOM = {
    "oddid": lambda zone, version: version.id % 2 == 1,
    "oldserial": lambda zone, version: version_serial(zone, version) < version_serial(zone, zone._versions[-1]),
    "none": lambda zone, version: None,
}


class FaultyPolicy:
    """wraps whatever pruning predicate the zone has; raises once when armed"""

    def __init__(self, inner, flag):
        self.inner = inner
        self.flag = flag

    def __call__(self, zone, version):
        if self.flag["armed"]:
            self.flag["armed"] = False
            self.flag["fired"] = True
            raise Boom()
        return self.inner(zone, version)


def wrap_policy(zone, flag):
    """(re)install the fault wrapper around the zone's current pruning predicate"""
    pol = zone._pruning_policy
    if not isinstance(pol, FaultyPolicy):
        zone._pruning_policy = FaultyPolicy(pol, flag)


# ----------------------------------------------------------------------------- writing
def spell(n, relativize, sp):
    """owner name n ("@" = apex) as the caller spells it: "own" = in the zone's relativity,
    "other" = the other one (absolute name for a relativized zone and vice versa), "str" = text"""
    if sp == "other":
        return owner(n, not relativize)
    if sp == "str":
        return n
    return owner(n, relativize)


def put(txn, name, rdtype, rdatas, form, kept):
    """store the rdataset (rdtype, TTL, rdatas) at name through the given argument form;
    the Rdataset / RRset objects handed to the transaction are kept by the caller"""
    if form == "rdataset":
        rds = dns.rdataset.Rdataset(IN, rdtype, NONE, TTL)
        for rd in rdatas:
            rds.add(rd, TTL)
        kept.append(rds)
        txn.replace(name, rds)
    elif form == "rrset":
        if isinstance(name, str):   # an RRset needs a Name object: spell it relative
            name = dns.name.empty if name == "@" else dns.name.from_text(name, None)
        rrs = dns.rrset.RRset(name, IN, rdtype)
        for rd in rdatas:
            rrs.add(rd, TTL)
        kept.append(rrs)
        txn.replace(rrs)
    else:
        txn.replace(name, TTL, rdatas[0])
        for rd in rdatas[1:]:
            txn.add(name, TTL, rd)


def stage(txn, target, relativize, form="rdata", kept=None, sp="own"):
    """make the write transaction hold exactly the abstract content `target`
    ([serial, items]); always touches something, so the transaction counts as changed.
    Only rdatasets that differ are written (an item that stays is NOT rewritten: a
    delegation added above an existing name leaves that name's node to the zone)."""
    if kept is None:
        kept = []
    cur = abstract(list(txn.iterate_rdatasets()), relativize)
    serial, items = target["serial"], sorted(list(i) for i in target["items"])
    apex = spell("@", relativize, sp)
    if cur[0] != serial:
        put(txn, apex, SOA, [soa_rdata(serial)], form, kept)
    # touch: re-put the apex NS (identical) - a change that changes nothing
    put(txn, apex, NS, [NS_RDATA], form, kept)
    have = [i for i in cur[1] if not str(i[0]).startswith("?")]
    for n in NAMES:
        want_a = [k for (m, k) in items if m == n and k != 0]
        have_a = [k for (m, k) in have if m == n and k != 0]
        if want_a != have_a:
            if not want_a:
                txn.delete(spell(n, relativize, sp), A)
            elif form == "rdata":
                for k in have_a:
                    if k not in want_a:
                        txn.delete(spell(n, relativize, sp), a_rdata(k))
                for k in want_a:
                    if k not in have_a:
                        txn.add(spell(n, relativize, sp), TTL, a_rdata(k))
            else:
                put(txn, spell(n, relativize, sp), A, [a_rdata(k) for k in want_a], form, kept)
        want_ns = [n, 0] in items
        have_ns = [n, 0] in have
        if want_ns and not have_ns:
            put(txn, spell(n, relativize, sp), NS, [NS_D], form, kept)
        elif have_ns and not want_ns:
            txn.delete(spell(n, relativize, sp), NS)


def scribble(objs, how):
    """the caller changes Rdataset / RRset objects of its own that it once handed to a
    (now ended) write transaction"""
    for o in objs:
        try:
            if how == "add":
                extra = {A: a_rdata(8), NS: NS_8, SOA: soa_rdata(4242)}.get(o.rdtype)
                if extra is not None:
                    o.add(extra, TTL)
            elif how == "ttl":
                o.update_ttl(77)
            else:
                o.clear()
        except Exception:  # noqa: BLE001 - the caller's own objects; failures are its business
            pass


# a short list of mutation attempts made through a read transaction in the middle of a
# history (the complete catalogue is exercised by probe_job / Trace_ValueObjectVZ)
def mutate_through_reader(zone, txn, relativize):
    na = owner("a", relativize)
    nz = owner("zz", relativize)
    apex = owner("@", relativize)
    rd9 = a_rdata(9)
    rds9 = dns.rdataset.from_rdata(77, rd9)
    ver = txn.version
    # only calls that WOULD change something on a mutable object (a call that could not
    # change anything - clear() of an empty map, deleting an absent key - proves nothing)
    attempts = [
        ("txn.add", lambda: txn.add(nz, TTL, rd9)),
        ("txn.replace", lambda: txn.replace(apex, TTL, soa_rdata(99))),
        ("version.nodes.__setitem__", lambda: ver.nodes.__setitem__(nz, zone.node_factory())),
        ("version.put_rdataset", lambda: ver.put_rdataset(nz, rds9)),
        ("setattr version.nodes", lambda: setattr(ver, "nodes", {})),
        ("setattr version.id", lambda: setattr(ver, "id", 99)),
    ]
    if txn.name_exists(apex):
        attempts += [
            ("txn.delete", lambda: txn.delete(apex)),
            ("txn.update_serial", lambda: txn.update_serial(5)),
            ("version.nodes.__delitem__", lambda: ver.nodes.__delitem__(apex)),
            ("version.nodes.clear", lambda: ver.nodes.clear()),
            ("version.nodes.pop", lambda: ver.nodes.pop(apex)),
            ("version.delete_node", lambda: ver.delete_node(apex)),
        ]
    # every node the reader can reach (also nodes that the zone only re-flagged)
    for nm in list(ver.keys()):
        for how, nd in (("get_node", txn.get_node(nm)), ("nodes[]", ver.nodes.get(nm))):
            if nd is None:
                continue
            lab = "%s(%s)" % (how, name_text(nm, relativize))
            attempts.append((lab + ".replace_rdataset", lambda nd=nd: nd.replace_rdataset(dns.rdataset.from_rdata(77, rd9))))
            attempts.append((lab + ".find_rdataset(create)", lambda nd=nd: nd.find_rdataset(IN, TXT, create=True)))
            if hasattr(nd, "flags"):
                attempts.append((lab + ".setattr flags", lambda nd=nd: setattr(nd, "flags", dns.btreezone.NodeFlags(7))))
            if len(nd.rdatasets) > 0:
                r0 = nd.rdatasets[0]
                attempts.append((lab + ".delete_rdataset", lambda nd=nd, r0=r0: nd.delete_rdataset(r0.rdclass, r0.rdtype, r0.covers)))
                attempts.append((lab + ".rdatasets[0].update_ttl", lambda r0=r0: r0.update_ttl(77)))
                # calls that request no change must be refused as well
                attempts.append((lab + ".rdatasets[0].update_ttl(same)", lambda r0=r0: r0.update_ttl(r0.ttl)))
                attempts.append((lab + ".rdatasets[0].update_ttl(larger)", lambda r0=r0: r0.update_ttl(r0.ttl + 100)))
                attempts.append((lab + ".rdatasets[0].add(present)", lambda r0=r0: r0.add(r0[0])))
    node = txn.get_node(apex)
    if node is not None:
        attempts += [
            ("node.replace_rdataset", lambda: node.replace_rdataset(rds9)),
            ("node.delete_rdataset", lambda: node.delete_rdataset(IN, NS)),
            ("node.find_rdataset(create)", lambda: node.find_rdataset(IN, TXT, create=True)),
            ("node.rdatasets.append", lambda: node.rdatasets.append(rds9)),
            ("setattr node.rdatasets", lambda: setattr(node, "rdatasets", [])),
        ]
        rds = txn.get(apex, NS)
        if rds is not None:
            attempts += [
                ("rdataset.add", lambda: rds.add(dns.rdata.from_text(IN, NS, "ns9.other."))),
                ("rdataset.update_ttl", lambda: rds.update_ttl(77)),
                ("rdataset.clear", lambda: rds.clear()),
                ("rdataset.discard", lambda: rds.discard(NS_RDATA)),
                ("rdataset.__delitem__", lambda: rds.__delitem__(0)),
                ("setattr rdataset.ttl", lambda: setattr(rds, "ttl", 77)),
            ]
        for n2, r2 in txn.iterate_rdatasets():
            attempts.append(("iterated rdataset.clear", lambda r2=r2: r2.clear()))
            break
    if hasattr(ver, "delegations"):
        attempts += [("version.delegations.add", lambda: ver.delegations.add(nz)),
                     ("version.delegations.insert_element", lambda: ver.delegations.insert_element(dns.btree.Member(nz)))]
    what, raised, excs = [], [], []
    for label, fn in attempts:
        res, exc, _ = call(fn)
        what.append(label)
        raised.append(res == "err")
        excs.append(exc)
    return what, raised, excs


def mutate_zone(zone, relativize):
    nz = owner("zz", relativize)
    apex = owner("@", relativize)
    rds9 = dns.rdataset.from_rdata(77, a_rdata(9))
    attempts = [
        ("zone.find_node(create)", lambda: zone.find_node(nz, create=True)),
        ("zone.get_node(create)", lambda: zone.get_node(nz, create=True)),
        ("zone.delete_node", lambda: zone.delete_node(apex)),
        ("zone.find_rdataset(create)", lambda: zone.find_rdataset(nz, A, create=True)),
        ("zone.get_rdataset(create)", lambda: zone.get_rdataset(nz, A, create=True)),
        ("zone.delete_rdataset", lambda: zone.delete_rdataset(apex, NS)),
        ("zone.replace_rdataset", lambda: zone.replace_rdataset(nz, rds9)),
        ("zone.__setitem__", lambda: zone.__setitem__(nz, zone.node_factory())),
        ("zone.__delitem__", lambda: zone.__delitem__(apex)),
        ("zone.nodes.__setitem__", lambda: zone.nodes.__setitem__(nz, zone.node_factory())),
    ]
    what, raised, excs = [], [], []
    for label, fn in attempts:
        res, exc, _ = call(fn)
        what.append(label)
        raised.append(res == "err")
        excs.append(exc)
    return what, raised, excs


# ----------------------------------------------------------------------------- replay
def new_zone(zclass, relativize, init):
    zone = ZCLASSES[zclass](ORIGIN, relativize=relativize)
    kept = []
    if init["kind"] == "loaded":
        with zone.writer(True) as txn:
            stage(txn, init["content"], relativize, "rdataset", kept)
    return zone, kept


def end_reader(txn, how):
    if how == "commit":
        return call(txn.commit)
    if how == "rollback":
        return call(txn.rollback)
    return call(lambda: txn.__exit__(None, None, None))


def end_writer(txn, how):
    if how == "commit":
        return call(txn.commit)
    if how == "rollback":
        return call(txn.rollback)
    if how == "exit":
        return call(lambda: txn.__exit__(None, None, None))
    b = Boom()
    return call(lambda: txn.__exit__(Boom, b, None))


def replay(script, zclass, relativize, tid):
    init = script[0]
    trace = {"tid": tid, "zclass": zclass, "rel": relativize, "ev": []}
    ev = trace["ev"]
    zone, released = new_zone(zclass, relativize, init)  # released: objects handed to write transactions that have ended
    flag = {"armed": False, "fired": False}
    wrap_policy(zone, flag)
    last_wtxn = None  # the most recent write transaction that has ended
    wedged = False    # a commit failed inside the library's prune pass: zone._write_txn is still set
    handles = {}    # driver handle number -> open read transaction
    ridmap = {}     # the script's handle label -> driver handle number of its latest open attempt
    wtxn = None
    kept = []       # objects handed to the open write transaction
    rec = {"op": "init", "kind": init["kind"]}
    rec.update(snapshot(zone, handles, relativize))
    rec["vkinds"] = [type(v).__name__ for v in zone._versions]
    ev.append(rec)
    steps = list(script[1:])
    # teardown: end the writer and every reader still open, one call at a time
    steps.append({"op": "teardown"})
    i = 0
    while i < len(steps):
        e = steps[i]
        i += 1
        op = e["op"]
        if op == "teardown":
            extra = []
            if wtxn is not None:
                extra.append({"op": "end", "how": "rollback"})
            for rid in sorted(handles):
                extra.append({"op": "close", "rid": rid, "how": "exit", "direct": True})
            steps[i:i] = extra
            continue
        rec = dict(e)
        rec.pop("maybe", None)
        rec.pop("if_open", None)
        # Handle labels.  A script (from the generator's copy of the model, or from the random
        # walker) only carries the environment's choices; where the specification leaves the
        # library a choice (which of several versions with the requested serial reader(serial=)
        # opens) the generator's idea of what is retained - hence of which later reader(id=)
        # succeeds and which labels are free - may differ from what really happened.  So a label
        # is only a name for "the reader opened by that step": an open always takes a driver
        # handle that is really free, and a close / mutation attempt whose open the LIBRARY
        # refused (already judged at that open, clause Outcome) is not a step at all: skipped,
        # nothing logged.  `no-handle` remains for a label that no step of the script ever opened.
        if op == "open":
            rid = e["rid"] if e["rid"] not in handles else min(r for r in range(1, len(handles) + 2) if r not in handles)
            ridmap[e["rid"]] = rid
            rec["rid"] = rid
        elif op in ("close", "mutate"):
            if rec.pop("direct", False):
                rid = e["rid"]
            elif e["rid"] in ridmap:
                rid = ridmap[e["rid"]]
                if rid not in handles:
                    continue
            else:
                rid = None
            rec["rid"] = e["rid"] if rid is None else rid
        if op == "open":
            how = e["how"]
            if how == "latest":
                res, exc, txn = call(lambda: zone.reader())
            elif how == "id":
                res, exc, txn = call(lambda: zone.reader(id=e["arg"]))
            elif how == "serial":
                res, exc, txn = call(lambda: zone.reader(serial=e["arg"]))
            else:
                res, exc, txn = call(lambda: zone.reader(id=2, serial=e["arg"]))
            if txn is not None:
                txn.__enter__()
                handles[rid] = txn
        elif op in ("close", "mutate") and rid is None:
            # the script uses a handle label that none of its steps opened (a generator defect)
            res, exc = "err", "NoSuchHandle"
            rec["op"] = "no-handle"
        elif op in ("begin", "stage", "end") and wedged:
            continue  # after a failed commit the library admits no writer (C12's subject): not a step
        elif op == "reuse" and (last_wtxn is None or wtxn is not None):
            continue  # no write transaction has ended yet (or another one is open): nothing to re-use
        elif op == "reuse":
            w = last_wtxn
            nz = owner("zz", relativize)
            attempts = [("add", lambda: w.add(nz, TTL, a_rdata(9))), ("replace", lambda: w.replace(nz, TTL, a_rdata(9))),
                        ("delete", lambda: w.delete(owner("@", relativize))), ("get", lambda: w.get(owner("@", relativize), SOA)),
                        ("commit", w.commit), ("rollback", w.rollback)]
            rec["what"] = [a[0] for a in attempts]
            outs = [call(a[1]) for a in attempts]
            rec["raised"] = [o[0] == "err" for o in outs]
            rec["excs"] = [o[1] for o in outs]
            res, exc = "err", ""
        elif op in ("stage", "end") and wtxn is None:
            res, exc = "err", "NoWriter"
            rec["op"] = "no-writer"
        elif op == "close":
            txn = handles.pop(rid)
            res, exc, _ = end_reader(txn, e["how"])
        elif op == "begin":
            if zone._write_txn is not None:
                # would block forever: record an event no action matches
                rec = {"op": "writer-would-block"}
                res, exc = "err", "WouldBlock"
            else:
                res, exc, wtxn = call(lambda: zone.writer(e["repl"]))
                if wtxn is not None:
                    wtxn.__enter__()
        elif op == "stage":
            rec["content"] = [e["content"]["serial"], sorted(list(x) for x in e["content"]["items"])]
            res, exc, _ = call(lambda: stage(wtxn, e["content"], relativize, e.get("form", "rdata"), kept, e.get("sp", "own")))
        elif op == "end":
            if e["how"] == "commit_fault":
                flag["armed"], flag["fired"] = True, False
                res, exc, _ = call(wtxn.commit)
                flag["armed"] = False
                rec["fired"] = flag["fired"]
                wedged = flag["fired"] and zone._write_txn is not None
            else:
                res, exc, _ = end_writer(wtxn, e["how"])
            last_wtxn = wtxn
            wtxn = None
            released += kept
            kept = []
        elif op == "scribble":
            rec["nobj"] = len(released)
            scribble(released, e["how"])
            res, exc = "ok", ""
        elif op == "setmax":
            res, exc, _ = call(lambda: zone.set_max_versions(e["n"]))
            wrap_policy(zone, flag)
        elif op == "setmax_none":
            res, exc, _ = call(lambda: zone.set_max_versions(None))
            wrap_policy(zone, flag)
        elif op == "setpolicy":
            pol = None if e["p"] == "default" else CUSTOM[e["p"]]
            res, exc, _ = call(lambda: zone.set_pruning_policy(pol))
            wrap_policy(zone, flag)
        elif op == "mutate":
            txn = handles[rid]
            rec["vkind"] = type(txn.version).__name__
            rec["vid"] = int(txn.version.id)
            what, raised, excs = mutate_through_reader(zone, txn, relativize)
            rec.update(what=what, raised=raised, excs=excs)
            res, exc = "err", ""
        elif op == "zmutate":
            rec["vkind"] = type(zone._versions[-1]).__name__
            what, raised, excs = mutate_zone(zone, relativize)
            rec.update(what=what, raised=raised, excs=excs)
            res, exc = "err", ""
        else:
            raise ValueError("unknown op %r" % op)
        rec.update(res=res, exc=exc)
        rec.update(snapshot(zone, handles, relativize))
        ev.append(rec)
    return trace


# ----------------------------------------------------------------------------- seeded random histories
def random_script(seed, steps, fresh):
    """A seeded random walk of the environment, weighted towards histories that keep several
    versions and readers alive (TLC's uniform simulation rarely commits).  Choices that
    depend on the state (which handle to close, ids near the newest) are resolved with a
    private bookkeeping of handles / writer / number of commits, which only decides what
    is ASKED, never what is expected."""
    import random
    rnd = random.Random(seed)
    script = []
    if fresh:
        script.append({"op": "init", "kind": "fresh", "content": {"serial": -1, "items": []}})
        newest = 1
    else:
        script.append({"op": "init", "kind": "loaded", "content": rand_content(rnd)})
        newest = 2
    open_rids = {}   # rid -> True (asked to open; may have been refused - then close is skipped by the model too)
    writer = None    # None | "clean" | "dirty"
    faulted = False  # a commit was made with a fault armed: the walk writes no more
    ended = False    # some write transaction has ended
    for _ in range(steps):
        choices = []
        free = [r for r in (1, 2, 3, 4) if r not in open_rids]
        if writer is None and not faulted:
            choices += [("begin", 4)]
        elif writer is not None:
            choices += [("stage", 5), ("commit", 4 if writer == "dirty" else 1), ("rollback", 1)]
            if writer == "dirty":
                choices += [("commitfault", 0.4)]
        if ended and writer is None:
            choices += [("reuse", 0.5)]
        if free:
            choices += [("open", 2), ("openid", 4), ("openserial", 1), ("openboth", 0.2)]
        if open_rids:
            choices += [("close", 3)]
            if not fresh:
                choices += [("mutate", 0.5)]
        choices += [("setmax", 1.2), ("setmax_none", 0.5), ("setpolicy", 1), ("scribble", 0.8)]
        if not fresh:
            choices += [("zmutate", 0.3)]
        op = rnd.choices([c[0] for c in choices], [c[1] for c in choices])[0]
        if op == "begin":
            repl = rnd.random() < (0.5 if (fresh and newest == 1) else 0.2)
            script.append({"op": "begin", "repl": repl})
            writer = "clean"
        elif op == "stage":
            script.append({"op": "stage", "content": rand_content(rnd), "form": rnd.choice(["rdata", "rdataset", "rdataset", "rrset"]),
                           "sp": rnd.choice(["own", "own", "other", "str"])})
            writer = "dirty"
        elif op == "commit":
            script.append({"op": "end", "how": rnd.choice(["commit", "exit"])})
            if writer == "dirty":
                newest += 1
            writer = None
            ended = True
        elif op == "rollback":
            script.append({"op": "end", "how": rnd.choice(["rollback", "raise"])})
            writer = None
            ended = True
        elif op == "commitfault":
            script.append({"op": "end", "how": "commit_fault"})
            newest += 1
            writer = None
            faulted = ended = True
        elif op == "reuse":
            script.append({"op": "reuse"})
        elif op == "open":
            script.append({"op": "open", "how": "latest", "rid": free[0], "arg": 0})
            open_rids[free[0]] = True
        elif op == "openid":
            n = max(1, newest + rnd.choice([-4, -3, -2, -2, -1, -1, 0, 0, 1]))
            script.append({"op": "open", "how": "id", "rid": free[0], "arg": n, "maybe": True})
            open_rids[free[0]] = "maybe"
        elif op == "openserial":
            script.append({"op": "open", "how": "serial", "rid": free[0], "arg": rnd.randint(0, 5), "maybe": True})
            open_rids[free[0]] = "maybe"
        elif op == "openboth":
            script.append({"op": "open", "how": "both", "rid": free[0], "arg": 1})
        elif op == "close":
            rid = rnd.choice(sorted(open_rids))
            script.append({"op": "close", "rid": rid, "how": rnd.choice(["commit", "rollback", "exit"]),
                           "if_open": open_rids[rid] == "maybe"})
            del open_rids[rid]
        elif op == "mutate":
            rid = rnd.choice(sorted(open_rids))
            script.append({"op": "mutate", "rid": rid, "if_open": open_rids[rid] == "maybe"})
        elif op == "setmax":
            script.append({"op": "setmax", "n": rnd.choice([0, 1, 2, 2, 3, 3, 4])})
        elif op == "setmax_none":
            script.append({"op": "setmax_none"})
        elif op == "setpolicy":
            script.append({"op": "setpolicy", "p": rnd.choice(["oddid", "oldserial", "none", "default"])})
        elif op == "zmutate":
            script.append({"op": "zmutate"})
        elif op == "scribble":
            script.append({"op": "scribble", "how": rnd.choice(["add", "ttl", "clear"])})
    return script


def rand_content(rnd):
    items = [it for it in (["a", 1], ["a", 2], ["b", 1], ["g.d", 1]) if rnd.random() < 0.5]
    if rnd.random() < 0.4:
        items.append(["d", 0])
    items.sort()
    return {"serial": rnd.randint(0, 4), "items": items}


def run_job(job):
    if job[0] == "probe":
        from drivers import c11_probe
        return c11_probe.run_job(job)
    if job[0] == "random":
        _, seed, steps, fresh, zclass, relativize, tid = job
        script = random_script(seed, steps, fresh)
    else:
        script, zclass, relativize, tid = job
    try:
        tr = replay(script, zclass, relativize, tid)
        if job[0] == "random":
            tr["random"] = [seed, steps, fresh]
        return tr
    except Exception as e:  # a driver failure is reported as an unmatched trace
        return {"tid": tid, "zclass": zclass, "rel": relativize,
                "ev": [{"op": "driver-error", "exc": repr(e)[:300]}]}
