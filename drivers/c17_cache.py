"""C17 driver (sequential part): replay a script of cache calls and clock advances on a
real dns.resolver.Cache / LRUCache with a virtual clock; log result, counters and a
structural projection after every call.  Only drives and projects."""
import dns.name
import dns.rdataclass
import dns.rdatatype
import dns.resolver


class VClock:
    """Stands in for the `time` module inside dns.resolver (driver process only)."""

    def __init__(self):
        self.now = 0.0

    def time(self):
        return self.now

    def monotonic(self):
        return self.now

    def sleep(self, d):
        self.now += d


class StubAnswer:
    """What the caches need from an answer: an expiration time."""

    def __init__(self, vid, expiration):
        self.vid = vid
        self.expiration = expiration


def key_of(k):
    return (dns.name.from_text(k + ".example."), dns.rdatatype.A, dns.rdataclass.IN)


def key_text(key):
    try:
        return key[0].labels[0].decode()
    except Exception:
        return "?" + repr(key)


def project(cache, kind, clock):
    out = {"hits": cache.statistics.hits, "misses": cache.statistics.misses}
    if kind == "lru":
        ring, back = [], []
        n = cache.sentinel.next
        guard = 0
        while n is not cache.sentinel and guard < 1000:
            ring.append([key_text(n.key), n.value.vid, int(n.value.expiration), n.hits])
            n = n.next
            guard += 1
        n = cache.sentinel.prev
        guard = 0
        while n is not cache.sentinel and guard < 1000:
            back.append(key_text(n.key))
            n = n.prev
            guard += 1
        out["ring"] = ring
        out["back"] = back
        out["keys"] = sorted(key_text(k) for k in cache.data)
    else:
        live = []
        for k, v in cache.data.items():
            if clock.now < v.expiration:
                live.append([key_text(k), v.vid, int(v.expiration)])
        out["live"] = sorted(live)
    return out


def replay(script, tid):
    clock = VClock()
    saved = dns.resolver.time
    dns.resolver.time = clock
    try:
        init = script[0]
        kind = init["kind"]
        if kind == "lru":
            cache = dns.resolver.LRUCache(init["max"])
        else:
            cache = dns.resolver.Cache(cleaning_interval=2.0)
        trace = {"tid": tid, "kind": kind, "max": init["max"], "ev": []}
        for e in script[1:]:
            rec = dict(e)
            rec["exc"] = ""
            op = e["op"]
            try:
                if op == "advance":
                    clock.now += e["d"]
                elif op == "put":
                    cache.put(key_of(e["k"]), StubAnswer(e["v"], clock.now + e["ttl"]))
                elif op == "get":
                    got = cache.get(key_of(e["k"]))
                    rec["res"] = ["none"] if got is None else ["val", got.vid]
                elif op == "flush":
                    cache.flush(key_of(e["k"]))
                elif op == "flushall":
                    cache.flush()
                elif op == "reset":
                    cache.reset_statistics()
                elif op == "setmax":
                    if kind == "lru":
                        cache.set_max_size(e["n"])
                    else:
                        rec["exc"] = "skipped"
                elif op == "hitsfor":
                    if kind == "lru":
                        rec["res"] = ["int", cache.get_hits_for_key(key_of(e["k"]))]
                    else:
                        rec["exc"] = "skipped"
                else:
                    raise ValueError(op)
            except Exception as ex:  # noqa: BLE001 - an escaping exception is an event
                rec["exc"] = type(ex).__name__
                rec["res"] = ["exc", type(ex).__name__]
            rec.update(project(cache, kind, clock))
            trace["ev"].append(rec)
        return trace
    finally:
        dns.resolver.time = saved


def run_job(job):
    script, tid = job
    try:
        return replay(script, tid)
    except Exception as ex:
        return {"tid": tid, "kind": "lru", "max": 1, "ev": [{"op": "driver-error", "exc": repr(ex)}]}
