"""C08 driver: Message.to_wire(max_size, prefer_truncation) on the real code for one message
script x configuration x EVERY limit; the library's own sequencing is recorded step by step
through a recording subclass of the real Renderer (rebinding dns.renderer.Renderer in this
process only); the TSIG clock is dns.message.time rebound to a fixed value.  Only drives and
projects; Trace_RendererLimits judges."""
import dns.exception
import dns.message
import dns.name
import dns.rdatatype
import dns.renderer
import dns.tsig

from drivers import c03_message as c3

NOW = 1600000000
REAL_RENDERER = dns.renderer.Renderer


class FixedTime:
    @staticmethod
    def time():
        return float(NOW)


class RecRenderer(REAL_RENDERER):
    """the real Renderer; every public call is logged with its outcome and the state"""
    log = None
    index = None   # id(rrset) / ('q', name, type, class) -> index of the script item

    def _st(self, with_table=False):
        s = {"pos": self.output.tell(), "counts": list(self.counts), "max": self.max_size, "reserved": self.reserved}
        if with_table:
            s["table"] = c3.proj_table(self)
        return s

    def __init__(self, id=None, flags=0, max_size=65535, origin=None):
        super().__init__(id, flags, max_size, origin)
        self._inner = False
        RecRenderer.log.append({"op": "new", "id": self.id, "flags": int(self.flags), **self._st(True)})

    def reserve(self, size):
        super().reserve(size)
        RecRenderer.log.append({"op": "reserve", "n": size, **self._st()})

    def release_reserved(self):
        super().release_reserved()
        RecRenderer.log.append({"op": "release", **self._st()})

    def _do(self, ev, fn, *a, **kw):
        res = "err"
        try:
            fn(*a, **kw)
            res = "ok"
        except dns.exception.TooBig:
            res = "toobig"
            raise
        except dns.exception.FormError:
            res = "formerr"
            raise
        finally:
            ev["res"] = res
            ev.update(self._st(ev["op"] != "tsigrr" and (res != "ok" or ev["op"] != "item")))
            RecRenderer.log.append(ev)

    def add_question(self, qname, rdtype, rdclass=1):
        idx = RecRenderer.index.get(("q", qname, int(rdtype), int(rdclass)), 0)
        self._do({"op": "item", "idx": idx}, super().add_question, qname, rdtype, rdclass)

    def add_rrset(self, section, rrset, **kw):
        if self._inner:
            return super().add_rrset(section, rrset, **kw)
        if rrset.rdtype == dns.rdatatype.TSIG:
            rd = rrset[0]
            ev = {"op": "tsigrr", "t48": list(rd.time_signed.to_bytes(6, "big")), "mac": list(rd.mac)}
        else:
            ev = {"op": "item", "idx": RecRenderer.index.get(id(rrset), 0)}
        self._do(ev, super().add_rrset, section, rrset, **kw)

    def add_opt(self, opt, pad=0, opt_size=0, tsig_size=0):
        self._inner = True
        try:
            self._do({"op": "opt", "pad": pad, "osize": opt_size, "tsize": tsig_size}, super().add_opt, opt, pad,
                     opt_size, tsig_size)
        finally:
            self._inner = False

    def write_header(self):
        super().write_header()
        RecRenderer.log.append({"op": "hdr", "flags": int(self.flags), **self._st()})


KEY_SECRET = b"0123456789abcdef"
ALG_DEFAULT = [list(b"hmac-sha256")]


def build(script, cfg):
    """message object for the script with EDNS/pad/TSIG configuration; returns (m, index, keyring)"""
    rel = False
    m = c3.build_message(script, rel, "direct")
    h = script[0]
    if h["edns"][0] == "edns":
        e = h["edns"]
        m.use_edns(e[1], e[2], e[3], options=c3.make_options(e[4]), pad=cfg["pad"])
        m.set_rcode(h["rcode"])
    keyring = None
    if cfg["key"]:
        kn = c3.mkname(cfg["key"], False)
        alg = ".".join(bytes(l).decode() for l in cfg.get("alg", ALG_DEFAULT)) + "."
        keyring = dns.tsig.Key(kn, KEY_SECRET, alg)
        m.use_tsig(keyring, tsig_error=cfg.get("terr", 0), other_data=bytes(cfg.get("other", [])))
    if cfg.get("src") == "parsed":
        # forwarder style: the message to render is one PARSED from (signed) wire, not re-signed; its EDNS/padding
        # configuration is applied to the parsed object
        dns.message.time = FixedTime
        try:
            w0 = m.to_wire(max_size=65535, want_shuffle=False)
            m = dns.message.from_wire(w0, keyring=keyring)
        finally:
            dns.message.time = __import__("time")
        if h["edns"][0] == "edns":
            e = h["edns"]
            m.use_edns(e[1], e[2], e[3], options=c3.make_options(e[4]), pad=cfg["pad"])
            m.set_rcode(h["rcode"])
    index = {}
    for i, s in enumerate(script[1:], start=1):
        if s["op"] == "q":
            index[("q", c3.mkname(s["name"], rel), s["type"], s["cls"])] = i
    k = 0
    items = [i for i, s in enumerate(script[1:], start=1) if s["op"] == "rr"]
    for sec in (1, 2, 3):
        for rs in m.sections[sec]:
            index[id(rs)] = items[k]
            k += 1
    return m, index, keyring


def render(script, cfg, tid, built=None):
    """one rendering; built = (m, index, keyring) renders an EXISTING message object again"""
    log = []
    RecRenderer.log = log
    ev_done = {"op": "done", "id": 0, "flags": 0, "max": 0, "t48": [0] * 6, "mac": [0] * 32, "wire": [], "mflags": [0, 0],
               "parsed": {"ok": False, "len": 0, "opt": False, "tsig": False, "flags": 0, "counts": [0, 0, 0, 0]}}
    try:
        m, index, keyring = built if built is not None else build(script, cfg)
        RecRenderer.index = index
        dns.renderer.Renderer = RecRenderer
        dns.message.time = FixedTime
        ev_done["mflags"] = [int(m.flags), int(m.flags)]
        try:
            try:
                wire = m.to_wire(max_size=cfg["max"], prefer_truncation=cfg["pt"], want_shuffle=False)
            finally:
                ev_done["mflags"][1] = int(m.flags)       # to_wire must not change the message object
            ev_done["res"] = "ok"
            ev_done["wire"] = list(wire)
        except dns.exception.TooBig:
            ev_done["res"] = "toobig"
        finally:
            dns.renderer.Renderer = REAL_RENDERER
        if m.tsig is not None:       # also after TooBig: the (placeholder) TSIG has the algorithm's MAC size
            ev_done["t48"] = list(m.tsig[0].time_signed.to_bytes(6, "big"))
            ev_done["mac"] = list(m.tsig[0].mac)
        if ev_done["res"] == "ok":
            try:
                # a TSIG carrying an error (BADTIME ...) is not validated by the projection parse
                p = dns.message.from_wire(wire, keyring=keyring if not (cfg.get("terr") or cfg.get("src") == "parsed") else False)
                ev_done["parsed"] = {"ok": True, "len": len(wire), "opt": p.opt is not None, "tsig": p.tsig is not None,
                                     "flags": int(p.flags),
                                     "counts": [p.section_count(i) for i in range(4)]}
            except Exception as ex:
                ev_done["parsed"]["exc"] = type(ex).__name__
    except Exception as ex:  # anything else: an event nobody matches
        ev_done["res"] = "err"
        ev_done["exc"] = type(ex).__name__ + ": " + str(ex)[:120]
    finally:
        dns.renderer.Renderer = REAL_RENDERER
        dns.message.time = __import__("time")
    log.append(ev_done)
    return {"tid": tid, "cmp": c3.probe_cmp_cached(), "hdr": script[0], "msg": script[1:-1], "cfg": cfg, "ev": log}


def total_size(script, cfg):
    m, _, _ = build(script, cfg)
    dns.message.time = FixedTime
    try:
        return len(m.to_wire(max_size=65535, want_shuffle=False))
    finally:
        dns.message.time = __import__("time")


def run_job(job):
    """job = (tid, script, cfg)"""
    tid, script, cfg = job
    if "seq" not in cfg:
        return render(script, cfg, tid)
    # the SAME message object rendered several times (e.g. truncated UDP answer, then the complete TCP one)
    out = []
    built = None
    for i, (mx, pt) in enumerate(cfg["seq"]):
        c = {k: v for k, v in cfg.items() if k != "seq"}
        c["max"] = mx
        c["pt"] = pt
        if built is None:
            try:
                built = build(script, c)
            except Exception:
                built = None
        out.append(render(script, c, "%s.r%d" % (tid, i + 1), built))
    return out
