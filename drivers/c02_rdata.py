"""C02 driver: builds real dnspython rdata objects from abstract value vectors (specs/schemas.json
shapes) through the public constructors, records to_wire / from_wire / equality / re-encoding,
and feeds faulted / random octet strings to dns.rdata.from_wire.  Drives and projects only: no
verdicts here (the oracle is specs/Trace_RdataCodec.tla).  stdlib + dns only."""
import os
import random
import socket

from vlib import core, schema_gen

core.repo_on_path()

import dns.edns  # noqa: E402
import dns.exception  # noqa: E402
import dns.name  # noqa: E402
import dns.rdata  # noqa: E402
import dns.rdataclass  # noqa: E402
import dns.rdatatype  # noqa: E402
import dns.rdtypes.svcbbase as svcb  # noqa: E402
import dns.wire  # noqa: E402

PRE = bytes([1, 112, 0])  # must equal PRE / SUF of Trace_RdataCodec.tla
SUF = bytes([0, 0])
ORIGIN = dns.name.Name([b"o", b""])
WATCHDOG_S = 3.0  # CPU seconds per library call (a decode of a short string takes microseconds)

_DOC = schema_gen.load()
TABLE = {t["key"]: t for t in _DOC["types"]}
TABLE["UNKNOWN"] = dict(_DOC["unknown"], key="UNKNOWN", type="UNKNOWN", **{"class": "IN"})
CLASSES = {"IN": 1, "CH": 3}


def loaded_types():
    """(class, type, implementation name) of everything dns.rdata.load_all_types() loads, without
    disabling dynamic loading for this process."""
    dns.rdata.load_all_types(disable_dynamic_load=False)
    out = set()
    for (c, t), cls in dns.rdata._rdata_classes.items():
        if cls is dns.rdata.GenericRdata or int(c) == 255:
            continue
        out.add((int(c), int(t), cls.__module__ + "." + cls.__name__))
    return sorted(out)


# ----------------------------------------------------------------------------- value <-> object
def mk_name(n):
    return dns.name.Name([bytes(x) for x in n["labels"]] + ([b""] if n["abs"] else []))


def pj_name(nm):
    labels = list(nm.labels)
    ab = bool(labels) and labels[-1] == b""
    if ab:
        labels = labels[:-1]
    return {"abs": ab, "labels": [list(x) for x in labels]}


def be(n, width):
    return list(int(n).to_bytes(width, "big"))


def from_be(b):
    return int.from_bytes(bytes(b), "big")


def strip0(b):
    b = bytes(b)
    while b and b[-1] == 0:
        b = b[:-1]
    return b


def types_of_windows(ws):
    out = []
    for w, bm in ws:
        for o, octet in enumerate(bm):
            for j in range(8):
                if octet & (0x80 >> j):
                    out.append(w * 256 + o * 8 + j)
    return out


def mk_gateway(g):
    if g[0] == "none":
        return None
    if g[0] == "ipv4":
        return socket.inet_ntop(socket.AF_INET, bytes(g[1]))
    if g[0] == "ipv6":
        return socket.inet_ntop(socket.AF_INET6, bytes(g[1]))
    return mk_name(g[1])


def pj_gateway(gtype, g):
    if gtype == 0:
        return ["none"]
    if gtype == 1:
        return ["ipv4", list(socket.inet_pton(socket.AF_INET, g))]
    if gtype == 2:
        return ["ipv6", list(socket.inet_pton(socket.AF_INET6, g))]
    return ["name", pj_name(g)]


def mk_svcparam(key, val):
    val = bytes(val)
    if key == 0:
        return svcb.MandatoryParam([from_be(val[i:i + 2]) for i in range(0, len(val), 2)])
    if key == 1:
        ids, i = [], 0
        while i < len(val):
            ids.append(val[i + 1:i + 1 + val[i]])
            i += 1 + val[i]
        return svcb.ALPNParam(ids)
    if key in (2, 8):
        return None
    if key == 3:
        return svcb.PortParam(from_be(val))
    if key == 4:
        return svcb.IPv4HintParam([socket.inet_ntop(socket.AF_INET, val[i:i + 4]) for i in range(0, len(val), 4)])
    if key == 5:
        return svcb.ECHParam(val)
    if key == 6:
        return svcb.IPv6HintParam([socket.inet_ntop(socket.AF_INET6, val[i:i + 16]) for i in range(0, len(val), 16)])
    if len(val) == 0:
        return None
    return svcb.GenericParam(val)


def pj_svcparam(key, p):
    if p is None:
        return []
    if isinstance(p, svcb.MandatoryParam):
        return [x for k in p.keys for x in be(k, 2)]
    if isinstance(p, svcb._StringList):
        return [x for s in p.ids for x in [len(s)] + list(s)]
    if isinstance(p, svcb.PortParam):
        return be(p.port, 2)
    if isinstance(p, svcb.IPv4HintParam):
        return [x for a in p.addresses for x in socket.inet_pton(socket.AF_INET, a)]
    if isinstance(p, svcb.IPv6HintParam):
        return [x for a in p.addresses for x in socket.inet_pton(socket.AF_INET6, a)]
    if isinstance(p, svcb.ECHParam):
        return list(p.ech)
    if isinstance(p, svcb.GenericParam):
        return list(p.value)
    raise TypeError("unknown SvcParam class %s" % type(p).__name__)


def mk_option(code, val):
    val = bytes(val)
    if code == 8:
        fam, src, scope = from_be(val[0:2]), val[2], val[3]
        addr = val[4:]
        if fam == 1:
            text = socket.inet_ntop(socket.AF_INET, addr + bytes(4 - len(addr)))
        else:
            text = socket.inet_ntop(socket.AF_INET6, addr + bytes(16 - len(addr)))
        return dns.edns.ECSOption(text, src, scope)
    if code == 10:
        return dns.edns.CookieOption(val[:8], val[8:])
    if code == 15:
        return dns.edns.EDEOption(from_be(val[:2]), val[2:].decode("utf-8") if len(val) > 2 else None)
    if code == 3:
        return dns.edns.NSIDOption(val)
    if code == 18:
        labels, i = [], 0
        while val[i] != 0:
            labels.append(val[i + 1:i + 1 + val[i]])
            i += 1 + val[i]
        return dns.edns.ReportChannelOption(dns.name.Name(labels + [b""]))
    if code == 22:
        return dns.edns.EDEExtraTextLanguageOption(val.decode("utf-8"))
    if code == 23:
        return dns.edns.FilteringContactOption(val.decode("utf-8"))
    if code == 24:
        return dns.edns.FilteringOrganizationOption(val.decode("utf-8"))
    if code == 25:
        return dns.edns.FilteringDBOption(val.decode("utf-8"))
    return dns.edns.GenericOption(code, val)


def pj_option(o):
    if isinstance(o, dns.edns.ECSOption):
        return be(o.family, 2) + [o.srclen, o.scopelen] + list(o.addrdata)
    if isinstance(o, dns.edns.CookieOption):
        return list(o.client) + list(o.server)
    if isinstance(o, dns.edns.EDEOption):
        return be(int(o.code), 2) + (list(o.text.encode("utf-8")) if o.text is not None else [])
    if isinstance(o, dns.edns.NSIDOption):
        return list(o.nsid)
    if isinstance(o, dns.edns.ReportChannelOption):
        return [x for lab in o.agent_domain.labels for x in [len(lab)] + list(lab)]
    if isinstance(o, dns.edns.GenericOption):
        return list(o.data)
    for attr in ("language", "contact", "organization", "db"):
        if hasattr(o, attr):
            return list(getattr(o, attr).encode("utf-8"))
    raise TypeError("unknown option class %s" % type(o).__name__)


def loc_size_to_float(octet):
    return float((octet >> 4) * 10 ** (octet & 15))


def loc_size_from_float(x):
    x = int(x)
    e = 0
    while e < 15 and x >= 10 ** (e + 1):
        e += 1
    return ((x // 10 ** e) << 4) | e


def loc_coord(val):
    ms = from_be(val) - 0x80000000
    sign = -1 if ms < 0 else 1
    ms = abs(ms)
    return (ms // 3600000, ms % 3600000 // 60000, ms % 60000 // 1000, ms % 1000, sign)


def loc_coord_back(tup):
    d, m, s, ms = tup[0], tup[1], tup[2], tup[3]
    sign = tup[4] if len(tup) > 4 else 1
    return be(0x80000000 + sign * (((d * 60 + m) * 60 + s) * 1000 + ms), 4)


def build(key, v, impl=None):
    """abstract value vector -> real rdata object, through the public constructor (of the class the
    registry dns.rdata.get_rdata_class names, or of impl when the caller already looked it up)."""
    t = TABLE[key]
    fields = t["fields"]
    rdclass = CLASSES[t["class"]]
    if key == "UNKNOWN":
        raise ValueError("UNKNOWN is built by build_unknown")
    rdtype = t["code"]
    cls = impl if impl is not None else dns.rdata.get_rdata_class(rdclass, rdtype)
    if key == "LOC":
        return cls(rdclass, rdtype, loc_coord(v[4]), loc_coord(v[5]), float(from_be(v[6]) - 10000000),
                   loc_size_to_float(v[1]), loc_size_to_float(v[2]), loc_size_to_float(v[3]))
    if key == "AMTRELAY":
        return cls(rdclass, rdtype, v[0], bool(v[1] >> 7), v[1] & 0x7F, mk_gateway(v[2]))
    if key == "HIP":
        return cls(rdclass, rdtype, bytes(v[0][0]), v[0][1], bytes(v[0][2]), [mk_name(n) for n in v[1]])
    if key == "APL":
        import dns.rdtypes.IN.APL as apl
        items = []
        for fam, prefix, neg, afd in v[0]:
            afd = bytes(afd)
            if fam == 1:
                addr = socket.inet_ntop(socket.AF_INET, afd + bytes(4 - len(afd)))
            elif fam == 2:
                addr = socket.inet_ntop(socket.AF_INET6, afd + bytes(16 - len(afd)))
            else:
                addr = afd.hex().encode()
            items.append(apl.APLItem(fam, bool(neg), addr, prefix))
        return cls(rdclass, rdtype, items)
    if key in ("SVCB", "HTTPS"):
        params = {}
        for k, val in v[2]:
            params[svcb.ParamKey.make(k)] = mk_svcparam(k, val)
        return cls(rdclass, rdtype, v[0], mk_name(v[1]), params)
    if key == "OPT":
        return cls(rdclass, rdtype, [mk_option(c, val) for c, val in v[0]])
    args = []
    for f, x in zip(fields, v):
        k = f["kind"]
        if k in ("u8", "u16"):
            args.append(x)
        elif k in ("u32", "ttl32", "u48"):
            args.append(from_be(x))
        elif k in ("ipv4", "ipv6", "bytes", "cstr", "u8len", "u16len", "cstropt", "rest"):
            args.append(bytes(x))
        elif k == "name":
            args.append(mk_name(x))
        elif k == "cstrs":
            args.append([bytes(s) for s in x])
        elif k == "bitmap":
            args.append([(w, bytes(b)) for w, b in x])
        elif k == "gateway":
            args.append(mk_gateway(x))
        else:
            raise ValueError("no generic builder for kind %s" % k)
    return cls(rdclass, rdtype, *args)


def project(key, rd):
    """real rdata object -> abstract value vector (same JSON shape as the input vectors)."""
    t = TABLE[key]
    if key == "UNKNOWN":
        return [list(rd.data)]
    if key == "LOC":
        return [0, loc_size_from_float(rd.size), loc_size_from_float(rd.horizontal_precision),
                loc_size_from_float(rd.vertical_precision), loc_coord_back(rd.latitude), loc_coord_back(rd.longitude),
                be(int(rd.altitude) + 10000000, 4)]
    if key == "AMTRELAY":
        return [rd.precedence, (int(rd.discovery_optional) << 7) | rd.relay_type, pj_gateway(rd.relay_type, rd.relay)]
    if key == "HIP":
        return [[list(rd.hit), rd.algorithm, list(rd.key)], [pj_name(n) for n in rd.servers]]
    if key == "APL":
        items = []
        for it in rd.items:
            if it.family == 1:
                afd = strip0(socket.inet_pton(socket.AF_INET, it.address))
            elif it.family == 2:
                afd = strip0(socket.inet_pton(socket.AF_INET6, it.address))
            else:
                afd = strip0(bytes.fromhex(it.address.decode() if isinstance(it.address, bytes) else it.address))
            items.append([it.family, it.prefix, 1 if it.negation else 0, list(afd)])
        return [items]
    if key in ("SVCB", "HTTPS"):
        return [rd.priority, pj_name(rd.target), [[int(k), pj_svcparam(int(k), rd.params[k])] for k in sorted(rd.params)]]
    if key == "OPT":
        return [[[int(o.otype), pj_option(o)] for o in rd.options]]
    out = []
    for f in t["fields"]:
        k = f["kind"]
        a = getattr(rd, f["name"])
        if k in ("u8", "u16"):
            out.append(int(a))
        elif k in ("u32", "ttl32"):
            out.append(be(a, 4))
        elif k == "u48":
            out.append(be(a, 6))
        elif k == "ipv4":
            out.append(list(socket.inet_pton(socket.AF_INET, a)))
        elif k == "ipv6":
            out.append(list(socket.inet_pton(socket.AF_INET6, a)))
        elif k == "bytes":
            out.append(list(a) if isinstance(a, bytes) else list(bytes.fromhex(a.replace(":", "").replace("-", ""))))
        elif k in ("cstr", "u8len", "u16len", "cstropt", "rest"):
            out.append(list(a))
        elif k == "name":
            out.append(pj_name(a))
        elif k == "cstrs":
            out.append([list(s) for s in a])
        elif k == "bitmap":
            out.append([[int(w), list(b)] for w, b in a])
        elif k == "gateway":
            out.append(pj_gateway(rd.gateway_type, a))
        else:
            raise ValueError("no generic projection for kind %s" % k)
    return out


# ----------------------------------------------------------------------------- real calls
def _err(e):
    return {"res": "err", "exc": type(e).__name__, "formerr": isinstance(e, dns.exception.FormError)}


def decode(rdclass, rdtype, rdata, origin, pre=PRE, suf=SUF):
    """dns.rdata.from_wire on rdata embedded in a larger message (pre + rdata + suf), plus the same
    through an explicit parser to observe how many octets were consumed.  Returns (event fields,
    object or None)."""
    buf = pre + rdata + suf
    ev = {}
    rd = None
    watchdog(True)
    try:
        rd = dns.rdata.from_wire(rdclass, rdtype, buf, len(pre), len(rdata), origin)
        ev["res"] = "ok"
    except (Exception, Hang) as e:  # noqa: BLE001
        ev.update(_err(e))
    finally:
        watchdog(False)
    if _hung[0]:
        ev["op"] = "hang"
        ev["pres"], ev["cons"], ev["same"] = "err", -1, False
        return ev, None
    try:
        p = dns.wire.Parser(buf, len(pre))
        with p.restrict_to(len(rdata)):
            rd_p = dns.rdata.from_wire_parser(rdclass, rdtype, p, origin)
        ev["pres"] = "ok"
        ev["cons"] = p.current - len(pre)
        ev["same"] = bool(rd is not None and rd_p == rd)
    except Exception as e:  # noqa: BLE001
        ev["pres"] = "err"
        ev["cons"] = -1
        ev["same"] = rd is None
    return ev, rd


def fixed_point(rdclass, rdtype, rd, origin, ev):
    """re-encode a decoded object, decode that again, re-encode again."""
    try:
        w = rd.to_wire(origin=origin)
        ev["reenc"] = list(w)
    except Exception as e:  # noqa: BLE001
        ev["reenc"] = [-1]
        ev["reenc_exc"] = type(e).__name__
        ev["eq2"] = False
        ev["reenc2"] = [-2]
        return
    try:
        rd2 = dns.rdata.from_wire(rdclass, rdtype, PRE + w + SUF, len(PRE), len(w), origin)
        ev["eq2"] = bool(rd2 == rd)
        ev["reenc2"] = list(rd2.to_wire(origin=origin))
    except Exception as e:  # noqa: BLE001
        ev["eq2"] = False
        ev["reenc2"] = [-2]
        ev["reenc2_exc"] = type(e).__name__


def frame_probe(rdclass, rdtype, b):
    """the (current, rdlen) frame handed to the classic entry point dns.rdata.from_wire does not fit
    the buffer: "ov" declares one octet more than the buffer holds after current, "be" puts current
    one past the end of the buffer (rdlen 0).  Outcome only (ok / err + FormError flag)."""
    buf = PRE + b
    out = {}
    for tag, cur, rdlen in (("ov", len(PRE), len(b) + 1), ("be", len(buf) + 1, 0)):
        watchdog(True)
        try:
            rd = dns.rdata.from_wire(rdclass, rdtype, buf, cur, rdlen)
            out[tag] = {"res": "ok", "n": len(rd.to_wire()), "formerr": False}
        except (Exception, Hang) as e:  # noqa: BLE001
            out[tag] = {"res": "err", "n": 0, "formerr": isinstance(e, dns.exception.FormError)}
        finally:
            watchdog(False)
    return out


def dec_event(key, rdclass, rdtype, ft, b):
    """one octet string offered as RDATA in three placements: in the middle of a message (fields of
    the event itself), as the tail of the message ("tl": nothing follows the RDATA) and as the whole
    buffer ("wh": offset 0, nothing before or after)."""
    b = bytes(b)
    ev = {"op": "dec", "ft": ft, "b": list(b)}
    r, rd = decode(rdclass, rdtype, b, None)
    ev.update(r)
    if rd is not None:
        fixed_point(rdclass, rdtype, rd, None, ev)
    if ev["op"] == "hang":
        return ev
    for tag, pre in (("tl", PRE), ("wh", b"")):
        pe = {}
        r, rd = decode(rdclass, rdtype, b, None, pre=pre, suf=b"")
        pe.update(r)
        if pe.get("op") == "hang":
            ev["op"] = "hang"
            return ev
        if rd is not None:
            fixed_point(rdclass, rdtype, rd, None, pe)
            # lossless shortening of the log: a re-encoding equal to the one recorded for the
            # middle placement is not repeated (the trace spec then reads it from there)
            for k in ("reenc", "reenc2"):
                if k in ev and pe.get(k) == ev[k]:
                    del pe[k]
        ev[tag] = pe
    ev.update(frame_probe(rdclass, rdtype, b))
    return ev


def fault_set(n):
    """the descriptors of RdataCodec!FaultSet for an encoding of n octets (same declared set;
    Trace_RdataCodec asserts equality)."""
    pos = list(range(1, n + 1)) if n <= 32 else [i for i in range(1, n + 1) if i <= 8 or i > n - 3]
    out = [["none", 0, 0]]
    out += [["trunc", i - 1, 0] for i in pos]
    out += [["ext", x, 0] for x in (0, 1, 255)]
    out += [["bump", i, d] for i in pos for d in (1, 255)]
    out += [["set", i, x] for i in pos for x in (0, 192)]
    out += [["ptr", i, 0] for i in pos if i < n]
    out += [["ptr", i, len(PRE) + i - 1] for i in pos if i < n]
    if 5 <= n <= 32:
        out += [["ovl", i, len(PRE)] for i in range(2, n - 1)]
    return out


def apply_fault(b, ft):
    b = bytearray(b)
    if ft[0] == "trunc":
        return bytes(b[:ft[1]])
    if ft[0] == "ext":
        return bytes(b) + bytes([ft[1]])
    if ft[0] == "bump":
        b[ft[1] - 1] = (b[ft[1] - 1] + ft[2]) % 256
        return bytes(b)
    if ft[0] == "set":
        b[ft[1] - 1] = ft[2]
        return bytes(b)
    if ft[0] == "ovl":
        b[0] = len(b) - 2
        b[-1] = 0
        b[ft[1] - 1] = 192 + ft[2] // 256
        b[ft[1]] = ft[2] % 256
        return bytes(b)
    if ft[0] == "ptr":
        b[ft[1] - 1] = 192 + ft[2] // 256
        b[ft[1]] = ft[2] % 256
        return bytes(b)
    return bytes(b)


class ReentrantOption(dns.edns.GenericOption):
    """user-defined EDNS option whose to_wire() encodes (and compares) other records before
    returning its own octets: legal user code, and the shape of any re-entrant use of to_wire()"""

    def to_wire(self, file=None):
        mx_cls = dns.rdata.get_rdata_class(1, 15)
        a = mx_cls(1, 15, 10, dns.name.Name([b"mail", b"example", b""]))
        a.to_wire()
        a == mx_cls(1, 15, 10, dns.name.Name([b"MAIL", b"example", b""]))  # noqa: B015  (uses to_wire as well)
        return super().to_wire(file)


def enc_event(key, rdclass, rdtype, v, use_origin, reentrant=False):
    ev = {"op": "enc", "v": v, "org": use_origin}
    origin = ORIGIN if use_origin else None
    # which class does the registry name for this (class, type)?  An implemented pair must not
    # fall back to the RFC 3597 generic class; if it does, this is recorded (gen) and the
    # implementation module is imported directly so that the decoding side is still exercised.
    cls = dns.rdata.get_rdata_class(rdclass, rdtype)
    ev["gen"] = cls is dns.rdata.GenericRdata
    try:
        rd = build(key, v, import_impl(key) if ev["gen"] else cls)
        if reentrant:
            rd = rd.replace(options=[ReentrantOption(o.otype, o.data) if type(o) is dns.edns.GenericOption else o
                                     for o in rd.options])
            ev["reent"] = True
        ev["built"] = "ok"
    except Exception as e:  # noqa: BLE001
        ev["built"] = "err"
        ev["exc"] = type(e).__name__
        return ev, None
    try:
        wire = rd.to_wire(origin=origin)
        ev["wire"] = list(wire)
    except Exception as e:  # noqa: BLE001
        # constructor-accepted value that cannot be encoded (cf. F3)
        ev["wire"] = [-1]
        ev["exc"] = type(e).__name__
        return ev, None
    r, rd2 = decode(rdclass, rdtype, wire, origin)
    ev.update(r)
    if rd2 is not None:
        ev["gen"] = ev["gen"] or isinstance(rd2, dns.rdata.GenericRdata)
        ev["eq"] = bool(rd2 == rd)
        try:
            ev["dec"] = project(key, rd2)
        except Exception as e:  # noqa: BLE001
            ev["dec"] = []
            ev["proj_exc"] = type(e).__name__
        fixed_point(rdclass, rdtype, rd2, origin, ev)
    # type bitmaps: the same value built through Bitmap.from_rdtypes
    t = TABLE[key]
    if t["fields"][-1]["kind"] == "bitmap":
        types = types_of_windows(v[-1])
        if 0 not in types:
            try:
                import importlib
                mod = importlib.import_module(type(rd).__module__)
                rd_t = rd.replace(windows=mod.Bitmap.from_rdtypes(types))
                ev["wire_t"] = list(rd_t.to_wire(origin=origin))
            except Exception as e:  # noqa: BLE001
                ev["wire_t"] = [-1]
                ev["exc_t"] = type(e).__name__
    return ev, wire


class Hang(BaseException):
    """raised by the watchdog inside a call of the library that does not return"""


_hung = [False]


def _alarm(signum, frame):
    _hung[0] = True
    raise Hang("no return within %.0f s of CPU time" % WATCHDOG_S)


def watchdog(on):
    """Arm / disarm a CPU-time watchdog around one call into the library (CPU time, so a loaded
    machine cannot trip it).  The library converts every exception into FormError, so the
    expiry is remembered in _hung and turns the event into op 'hang', which no action of the
    trace specification matches."""
    import signal
    try:
        if on:
            _hung[0] = False
            signal.signal(signal.SIGVTALRM, _alarm)
            signal.setitimer(signal.ITIMER_VIRTUAL, WATCHDOG_S)
        else:
            signal.setitimer(signal.ITIMER_VIRTUAL, 0)
    except ValueError:  # not in the main thread
        pass


def run_job(job):
    """job = {tid, ty, k: vec|oct|rand, v|b|bs, rel, faults: bool, utype (UNKNOWN only)}"""
    try:
        return _run_job(job)
    except (Exception, Hang) as e:  # noqa: BLE001
        return {"tid": job.get("tid", "?"), "ty": job.get("ty", "?"),
                "ev": [{"op": "crash", "exc": type(e).__name__, "msg": str(e)[:200]}]}
    finally:
        watchdog(False)


def _run_job(job):
    key = job["ty"]
    t = TABLE[key]
    rdclass = CLASSES[t["class"]]
    rdtype = job["utype"] if key == "UNKNOWN" else t["code"]
    tr = {"tid": job["tid"], "ty": key, "ev": []}
    if job["k"] == "fresh":
        return run_fresh(job["order"], [job["item"]])[0]
    if job["k"] == "seq":
        # several values encoded / decoded one after the other in this process (with the origin):
        # decoders must not remember anything from one call to the next
        for v in job["vs"]:
            ev, w = enc_event(key, rdclass, rdtype, v, True)
            ev["fts"] = []
            tr["ev"].append(ev)
            if w is None:
                break
        return tr
    if job["k"] == "reent":
        # an OPT record one of whose options calls back into user code that encodes another record
        # while the OPT encoding is in progress
        for use_origin in (False, True):
            ev, w = enc_event(key, rdclass, rdtype, job["v"], use_origin, reentrant=True)
            ev["fts"] = []
            tr["ev"].append(ev)
            if w is None:
                break
        return tr
    if job["k"] == "vec":
        v = job["v"]
        wire = None
        if key == "UNKNOWN":
            # RFC 3597 generic form
            for use_origin in (False, True):
                ev = {"op": "enc", "v": v, "org": use_origin, "gen": True}
                origin = ORIGIN if use_origin else None
                rd = dns.rdata.GenericRdata(rdclass, rdtype, bytes(v[0]))
                ev["built"] = "ok"
                wire = rd.to_wire(origin=origin)
                ev["wire"] = list(wire)
                r, rd2 = decode(rdclass, rdtype, wire, origin)
                ev.update(r)
                if rd2 is not None:
                    ev["eq"] = bool(rd2 == rd)
                    ev["dec"] = project(key, rd2)
                    fixed_point(rdclass, rdtype, rd2, origin, ev)
                ev["fts"] = []
                tr["ev"].append(ev)
        else:
            for use_origin in ((True,) if job["rel"] else (False, True)):
                ev, w = enc_event(key, rdclass, rdtype, v, use_origin)
                ev["fts"] = []
                tr["ev"].append(ev)
                if w is None:
                    return tr
                if wire is None:
                    wire = w
        if job.get("faults") and wire is not None:
            fts = fault_set(len(wire))
            tr["ev"][0]["fts"] = fts
            for ft in fts:
                tr["ev"].append(dec_event(key, rdclass, rdtype, ft, apply_fault(wire, ft)))
    elif job["k"] == "oct":
        tr["ev"].append(dec_event(key, rdclass, rdtype, ["none", 0, 0], job["b"]))
    elif job["k"] == "rand":
        for b in job["bs"]:
            tr["ev"].append(dec_event(key, rdclass, rdtype, ["rand", 0, 0], b))
    return tr


def swapcase_names(key, v):
    """the same value with the ASCII letters of every embedded name in the other case; None if the
    value has no name with a letter"""
    import copy
    v2 = copy.deepcopy(v)
    changed = [False]

    def sw(n):
        new = [[(x ^ 32) if (65 <= x <= 90 or 97 <= x <= 122) else x for x in lab] for lab in n["labels"]]
        if new != n["labels"]:
            changed[0] = True
        n["labels"] = new

    for f, x in zip(TABLE[key]["fields"], v2):
        if f["kind"] == "name":
            sw(x)
        elif f["kind"] == "names":
            for n in x:
                sw(n)
        elif f["kind"] == "gateway" and x[0] == "name":
            sw(x[1])
    return v2 if changed[0] else None


def import_impl(key):
    """the implementing class of a table entry, imported directly from its module"""
    import importlib
    t = TABLE[key]
    name = t["type"].replace("-", "_")
    for d in (t["class"], "ANY"):
        try:
            return getattr(importlib.import_module("dns.rdtypes.%s.%s" % (d, name)), name)
        except ImportError:
            continue
    raise ImportError("no implementation module for %s" % key)


FOREIGN_CLASS = 4  # HS: no record type has an implementation in this class -> RFC 3597 generic form
# lookup orders of the fresh-process scenario -> class of the first ("foreign") lookup.  ANY (255) and
# NONE (254) are the classes of prerequisite / delete RRs of UPDATE messages (and of anything a peer sends);
# ANY is also the class-independent key of the library's registry.
FOREIGN_ORDERS = {"foreign-first": 4, "any-first": 255, "none-first": 254, "home-first": 4,
                  # documented configuration (doc/rdata-class.rst): ordering comparisons of rdata with relative
                  # names are disallowed (the announced future behaviour); equality must not be affected
                  "home-first-strictcmp": 4}


def foreign_event(key, rdtype, wire, fclass=FOREIGN_CLASS):
    """the type's RDATA decoded in another class than its home class (HS, ANY, NONE)"""
    ev = {"op": "foreign", "b": list(wire), "cls": fclass}
    r, rd = decode(fclass, rdtype, bytes(wire), None)
    ev.update(r)
    ev["gen"] = isinstance(rd, dns.rdata.GenericRdata)
    if rd is not None:
        fixed_point(fclass, rdtype, rd, None, ev)
    ev.update(frame_probe(fclass, rdtype, bytes(wire)))
    return ev


def fresh_traces(order, items):
    """Runs INSIDE a fresh interpreter (see run_fresh).  For every type, in the given order:
    "foreign-first": decode its RDATA in a class without implementation (the very first lookup of
    that type in the process), then the ordinary encode/decode events in its home class;
    "home-first" (control): the other way round.  The registry of dns.rdata is process-global,
    so the order of first lookups is an input of the scenario."""
    out = []
    if order.endswith("-strictcmp"):
        dns.rdata._allow_relative_comparisons = False
    for it in items:
        key = it["ty"]
        t = TABLE[key]
        rdclass, rdtype = CLASSES[t["class"]], t["code"]
        tr = {"tid": "fresh:%s:%s" % (order, key), "ty": key, "ev": []}

        def home():
            evs = []
            for v, rel in it["vs"]:
                for use_origin in ((True,) if rel else (False, True)):
                    ev, _w = enc_event(key, rdclass, rdtype, v, use_origin)
                    ev["fts"] = []
                    evs.append(ev)
                    if ev.get("built") != "ok" or ev.get("wire") == [-1]:
                        return evs
            return evs

        try:
            fclass = FOREIGN_ORDERS[order]
            if not order.startswith("home-first"):
                tr["ev"] = [foreign_event(key, rdtype, it["wire"], fclass)] + home()
            else:
                tr["ev"] = home() + [foreign_event(key, rdtype, it["wire"], fclass)]
        except (Exception, Hang) as e:  # noqa: BLE001
            tr["ev"] = [{"op": "crash", "exc": type(e).__name__, "msg": str(e)[:200]}]
        finally:
            watchdog(False)
        out.append(tr)
    return out


def run_fresh(order, items):
    """fresh_traces in a NEW interpreter (not a fork of this one: the parent has already looked up
    every type).  Returns the traces; a failing child becomes crash events."""
    import json
    import subprocess
    import sys
    env = dict(os.environ)
    env["PYTHONHASHSEED"] = "0"
    env["PYTHONDONTWRITEBYTECODE"] = "1"
    code = ("import sys, json; sys.path.insert(0, %r); from drivers import c02_rdata as d; "
            "j = json.load(sys.stdin); json.dump(d.fresh_traces(j['order'], j['items']), sys.stdout)" % core.ROOT)
    try:
        p = subprocess.run([sys.executable, "-c", code], input=json.dumps({"order": order, "items": items}),
                           capture_output=True, text=True, env=env, cwd=core.ROOT, timeout=600)
        return json.loads(p.stdout)
    except Exception as e:  # noqa: BLE001
        return [{"tid": "fresh:%s:%s" % (order, it["ty"]), "ty": it["ty"],
                 "ev": [{"op": "crash", "exc": type(e).__name__, "msg": str(e)[:200]}]} for it in items]


def aliasmode_probe():
    """does the SVCB constructor accept priority 0 together with SvcParams?  (recorded as drift)"""
    try:
        cls = dns.rdata.get_rdata_class(1, 64)
        cls(1, 64, 0, dns.name.root, {svcb.ParamKey.PORT: svcb.PortParam(443)})
        return True
    except Exception:  # noqa: BLE001
        return False


# ----------------------------------------------------------------------------- random octets
def random_rdata(rng, base_wires, n):
    """n seeded octet strings: uniform noise, length/pointer-heavy noise, and mutations of valid encodings."""
    out = []
    small = [0, 0, 1, 1, 2, 3, 4, 8, 16, 32, 63, 64, 127, 128, 192, 193, 255]
    for i in range(n):
        mode = i % 3
        if mode == 0 or not base_wires:
            ln = rng.choice([0, 1, 2, 3, 4, 5, 6, 8, 10, 12, 16, 20, 28, 40])
            out.append([rng.randrange(256) for _ in range(ln)])
        elif mode == 1:
            ln = rng.randrange(0, 24)
            out.append([rng.choice(small) if rng.random() < 0.7 else rng.randrange(256) for _ in range(ln)])
        else:
            b = list(rng.choice(base_wires))
            for _ in range(rng.choice([1, 1, 2, 3])):
                op = rng.randrange(4)
                if op == 0 and b:
                    b[rng.randrange(len(b))] = rng.choice(small)
                elif op == 1 and b:
                    del b[rng.randrange(len(b))]
                elif op == 2:
                    b.insert(rng.randrange(len(b) + 1), rng.choice(small))
                elif b:
                    b[rng.randrange(len(b))] = rng.randrange(256)
            out.append(b[:80])
    return out
