"""X01 driver: runs the real dns.ipv4 / dns.ipv6 / dns.inet / dns.reversename / dns.e164
functions on one input and records ONE event (arguments + outcomes).  Only drives and
projects; Trace_AddrCodec recomputes every outcome with the specification's operators.

A text travels as a list of code points, an address as a list of octets, a name as a list
of labels (each a list of octets).  An outcome is ["ok", projection] or
["err", is-dns.exception.SyntaxError, is-ValueError, class name]; ["skip"] = call not made."""
import socket

import dns.e164
import dns.exception
import dns.inet
import dns.ipv4
import dns.ipv6
import dns.name
import dns.reversename

SKIP = ["skip"]


def codes(s):
    if isinstance(s, bytes):
        return list(s)
    return [ord(c) for c in s]


def text_of(cs):
    return "".join(chr(c) for c in cs)


def mkname(labels):
    return dns.name.Name([bytes(x) for x in labels])


def js(name):
    return [list(x) for x in name.labels]


def ident(x):
    return x


def outcome(fn, proj=ident):
    try:
        return ["ok", proj(fn())]
    except Exception as ex:  # noqa: BLE001 - the class is the observation
        return ["err", isinstance(ex, dns.exception.SyntaxError), isinstance(ex, ValueError), type(ex).__name__]


def fam(af):
    return 4 if af == socket.AF_INET else 6 if af == socket.AF_INET6 else 0


def lowlevel(tup):
    return [codes(tup[0]), [int(x) for x in tup[1:]]]


def ev_ntoa6(a):
    b = bytes(a)
    return {"op": "ntoa6", "a": a,
            "res": outcome(lambda: dns.ipv6.inet_ntoa(b), codes),
            "ntop": outcome(lambda: dns.inet.inet_ntop(socket.AF_INET6, b), codes),
            "mapped": bool(dns.ipv6.is_mapped(b))}


def ev_ntoa4(a):
    b = bytes(a)
    return {"op": "ntoa4", "a": a,
            "res": outcome(lambda: dns.ipv4.inet_ntoa(b), codes),
            "ntop": outcome(lambda: dns.inet.inet_ntop(socket.AF_INET, b), codes)}


def ev_aton(cs):
    s = text_of(cs)
    ascii_only = all(c < 128 for c in cs)
    bs = bytes(cs) if ascii_only else None
    return {"op": "aton", "text": cs,
            "r4": outcome(lambda: dns.ipv4.inet_aton(s), list),
            "r6": outcome(lambda: dns.ipv6.inet_aton(s), list),
            "r6s": outcome(lambda: dns.ipv6.inet_aton(s, True), list),
            "r4b": outcome(lambda: dns.ipv4.inet_aton(bs), list) if ascii_only else SKIP,
            "r6b": outcome(lambda: dns.ipv6.inet_aton(bs), list) if ascii_only else SKIP,
            "p4": outcome(lambda: dns.inet.inet_pton(socket.AF_INET, s), list),
            "p6": outcome(lambda: dns.inet.inet_pton(socket.AF_INET6, s), list)}


def ev_canon(cs):
    s = text_of(cs)
    return {"op": "canon", "text": cs,
            "c4": outcome(lambda: dns.ipv4.canonicalize(s), codes),
            "c6": outcome(lambda: dns.ipv6.canonicalize(s), codes),
            "ci": outcome(lambda: dns.inet.canonicalize(s), codes)}


def ev_inet(cs, port):
    s = text_of(cs)
    return {"op": "inet", "text": cs, "port": port,
            "af": outcome(lambda: dns.inet.af_for_address(s), fam),
            "isaddr": outcome(lambda: dns.inet.is_address(s), bool),
            "mc": outcome(lambda: dns.inet.is_multicast(s), bool),
            "ll": outcome(lambda: dns.inet.low_level_address_tuple((s, port)), lowlevel)}


def ev_fromaddr(cs, o4, o6):
    s = text_of(cs)
    n4, n6 = mkname(o4), mkname(o6)
    return {"op": "fromaddr", "text": cs, "o4": o4, "o6": o6,
            "res": outcome(lambda: dns.reversename.from_address(s), js),
            "alt": outcome(lambda: dns.reversename.from_address(s, n4, n6), js)}


def ev_toaddr(n, o4, o6, defaults):
    name = mkname(n)
    if defaults:  # the documented default origins, not passed
        fn = lambda: dns.reversename.to_address(name)  # noqa: E731
    else:
        n4, n6 = mkname(o4), mkname(o6)
        fn = lambda: dns.reversename.to_address(name, n4, n6)  # noqa: E731
    return {"op": "toaddr", "n": n, "o4": o4, "o6": o6, "res": outcome(fn, codes)}


def origin_of(origin):
    return mkname(origin[1]) if origin[0] == "some" else None


def ev_e164f(cs, origin, default):
    s = text_of(cs)
    if default:
        fn = lambda: dns.e164.from_e164(s)  # noqa: E731
    else:
        o = origin_of(origin)
        fn = lambda: dns.e164.from_e164(s, o)  # noqa: E731
    return {"op": "e164f", "text": cs, "origin": origin, "res": outcome(fn, js)}


def ev_e164t(n, origin, plus):
    name = mkname(n)
    o = origin_of(origin)
    return {"op": "e164t", "n": n, "origin": origin, "plus": plus,
            "res": outcome(lambda: dns.e164.to_e164(name, o, plus), codes)}


def ev_family(bad):
    """dns.inet.any_for_af and the NotImplementedError the family dispatchers document"""
    return {"op": "family", "bad": bad,
            "any4": outcome(lambda: dns.inet.any_for_af(socket.AF_INET), codes),
            "any6": outcome(lambda: dns.inet.any_for_af(socket.AF_INET6), codes),
            "anybad": outcome(lambda: dns.inet.any_for_af(bad), codes),
            "ptonbad": outcome(lambda: dns.inet.inet_pton(bad, "1.2.3.4"), list),
            "ntopbad": outcome(lambda: dns.inet.inet_ntop(bad, b"\x01\x02\x03\x04"), codes),
            "llbad": outcome(lambda: dns.inet.low_level_address_tuple(("1.2.3.4", 53), bad), lowlevel)}


OPS = {"family": ev_family, "ntoa6": ev_ntoa6, "ntoa4": ev_ntoa4, "aton": ev_aton, "canon": ev_canon, "inet": ev_inet,
       "fromaddr": ev_fromaddr, "toaddr": ev_toaddr, "e164f": ev_e164f, "e164t": ev_e164t}


def run_job(job):
    """job = (tid, op, args) -> one single-event trace"""
    tid, op, args = job
    try:
        return {"tid": tid, "ev": [OPS[op](*args)]}
    except Exception as e:  # a driver failure is reported as an event nobody matches
        return {"tid": tid, "ev": [{"op": "driver-error", "exc": repr(e)}]}
