"""C13 driver: feed a scripted response stream (from Gen_XfrInbound) to a real
dns.xfr.Inbound on a real zone, the way dns.query._inbound_xfr does, and record one event
per message (outcome, returned flag, state-machine attributes), an `eof` event when the
stream ends before the transfer is complete, and at context exit the projection of the
zone and whether any transaction was left open.  Only drives and projects; the verdicts
are Trace_XfrInbound's."""
import asyncio
import signal
import socket
import struct
import threading

import dns.asyncbackend
import dns.asyncquery
import dns.btreezone
import dns.exception
import dns.message
import dns.name
import dns.query
import dns.rcode
import dns.rdata
import dns.rdataclass
import dns.rdataset
import dns.rdatatype
import dns.rrset
import dns.versioned
import dns.xfr
import dns.zone

ORIGIN = dns.name.from_text("example.")
OTHER = dns.name.from_text("other.example.")
_CREATED = []
CPU_LIMIT_S = 60.0      # CPU seconds per job (ITIMER_VIRTUAL): catches busy loops, independent of machine load
LAST_RESORT_S = 1800.0  # wall clock, only so that a job blocked in something unforeseen cannot hang the check for ever


class Stuck(BaseException):
    """The job can make no progress (deadlock / busy loop): reported as an event nobody matches."""


class _DeadlockEvent(threading.Event):
    def wait(self, timeout=None):
        # the driver is single-threaded: nobody can ever set an event we would have to sleep on
        if not self.is_set():
            raise Stuck("wait on an event that nobody can set (a write transaction was left open)")
        return True


class _DeadlockLock:
    def __init__(self):
        self._lock = threading.Lock()

    def acquire(self, blocking=True, timeout=-1):
        if self._lock.acquire(False):
            return True
        if blocking:
            raise Stuck("acquire of a lock this single thread already holds")
        return False

    def release(self):
        self._lock.release()

    def locked(self):
        return self._lock.locked()

    __enter__ = acquire

    def __exit__(self, *a):
        self._lock.release()


class _ThreadingShim:
    """Stands in for the `threading` module inside dns.versioned (this process only): hang detection that does not
    depend on time.  dns.versioned.Zone.writer() sleeps on an Event while another write transaction is open."""
    Lock = _DeadlockLock
    Event = _DeadlockEvent

    def __getattr__(self, name):
        return getattr(threading, name)


dns.versioned.threading = _ThreadingShim()


def _tracked(cls):
    class Tracked(cls):
        def writer(self, replacement=False):
            txn = super().writer(replacement)
            _CREATED.append(txn)
            return txn

    Tracked.__name__ = "Tracked" + cls.__name__
    return Tracked


ZCLASSES = {"plain": _tracked(dns.zone.Zone), "versioned": _tracked(dns.versioned.Zone),
            "btree": _tracked(dns.btreezone.Zone)}

_RD_TEXT = {"NS": "ns%d.other.", "A": "10.0.0.%d", "TXT": '"t%d"', "AAAA": "2001:db8::%d", "MX": "10 mx%d.other."}
_cache = {}


def split_type(ty):
    """ "RRSIG/A" is the RRSIG rdataset covering A."""
    if "/" in ty:
        a, b = ty.split("/")
        return dns.rdatatype.from_text(a), dns.rdatatype.from_text(b)
    return dns.rdatatype.from_text(ty), dns.rdatatype.NONE


def make_rdata(ty, rd):
    key = (ty, tuple(rd))
    r = _cache.get(key)
    if r is None:
        rdtype, covers = split_type(ty)
        if ty == "SOA":
            text = "ns.other. admin.other. %d 3600 600 86400 300" % (rd[0] * 65536 + rd[1])
        elif rdtype == dns.rdatatype.RRSIG:
            # the signer is outside the zone so that relativization never changes the rdata
            text = "%s 8 2 300 20300101000000 20200101000000 %d signer.other. AAAA" % (dns.rdatatype.to_text(covers), 1000 + rd[0])
        else:
            text = _RD_TEXT[ty] % rd[0]
        r = dns.rdata.from_text(dns.rdataclass.IN, rdtype, text)
        _cache[key] = r
    return r


def rd_id(ty, rd):
    if ty == "SOA":
        try:
            if rd != make_rdata("SOA", [rd.serial >> 16, rd.serial & 0xFFFF]):
                return [-1, -1]
            return [rd.serial >> 16, rd.serial & 0xFFFF]
        except Exception:
            return [-1, -1]
    if ty in _RD_TEXT or ty.startswith("RRSIG/"):
        for k in range(0, 12):
            if make_rdata(ty, [k]) == rd:
                return [k]
    return [-1]


def owner(n, absolute):
    rel = dns.name.empty if n == "@" else dns.name.from_text(n, None)
    return rel.derelativize(ORIGIN) if absolute else rel


def name_text(name, relativize):
    if relativize:
        return ("ABS:" + name.to_text()) if name.is_absolute() else name.to_text()
    if not name.is_absolute():
        return "REL:" + name.to_text()
    if not name.is_subdomain(ORIGIN):
        return "OUT:" + name.to_text()
    return name.relativize(ORIGIN).to_text()


def project_zone(zone, relativize):
    out = []
    for name, node in zone.nodes.items():
        if len(node.rdatasets) == 0:
            out.append([name_text(name, relativize), "EMPTYNODE", 0, [0]])
        for rds in node.rdatasets:
            ty = dns.rdatatype.to_text(rds.rdtype)
            if rds.covers != dns.rdatatype.NONE:
                ty += "/" + dns.rdatatype.to_text(rds.covers)
            if len(rds) == 0:
                out.append([name_text(name, relativize), ty, int(rds.ttl), [-2]])
            for rd in rds:
                out.append([name_text(name, relativize), ty, int(rds.ttl), rd_id(ty, rd)])
    out.sort()
    return out


def make_zone(zclass, relativize, recs):
    zone = ZCLASSES[zclass](ORIGIN, relativize=relativize)
    with zone.writer(True) as txn:
        for n, ty, ttl, rd in recs:
            txn.add(owner(n, not relativize), ttl, make_rdata(ty, rd))
    return zone


def limbs(v):
    return [] if v is None else [int(v) >> 16, int(v) & 0xFFFF]


def build_message(msg, req, query, relativize, via, from_wire_origin, multi=True):
    """One response message holding msg["rrs"], one RRset per record (order matters)."""
    rdtype = dns.rdatatype.IXFR if req == "ixfr" else dns.rdatatype.AXFR
    absolute = via != "direct" or not relativize
    m = dns.message.make_response(query)
    m.set_rcode(msg["rcode"])
    m.authority = []
    q = msg["q"]
    if q == "none":
        m.question = []
    else:
        qname = ORIGIN if absolute else dns.name.empty
        qtype = rdtype
        if q == "wrongname":
            qname = OTHER if absolute else OTHER.relativize(ORIGIN)
        elif q == "wrongtype":
            qtype = dns.rdatatype.AXFR if req == "ixfr" else dns.rdatatype.IXFR
        m.question = [dns.rrset.RRset(qname, dns.rdataclass.IN, qtype)]
    m.answer = []
    for n, ty, ttl, rd in msg["rrs"]:
        rrs = dns.rrset.RRset(owner(n, absolute), dns.rdataclass.IN, *split_type(ty))
        rrs.add(make_rdata(ty, rd), ttl)
        m.answer.append(rrs)
    if via == "direct":
        return m
    wire = m.to_wire()
    if via == "wire-bytes":
        return wire
    return dns.message.from_wire(wire, xfr=True, origin=from_wire_origin, multi=multi,
                                 one_rr_per_rrset=(req == "ixfr"))


def state_of(ib):
    names = ("incremental", "expecting_SOA", "delete_mode", "done", "serial")
    if not all(hasattr(ib, n) for n in names):
        return False, [False, False, False, False, []]
    try:
        return True, [bool(ib.incremental), bool(ib.expecting_SOA), bool(ib.delete_mode), bool(ib.done), limbs(ib.serial)]
    except Exception:
        return False, [False, False, False, False, []]


class ScriptedSocket(socket.socket):
    """A socket object (dns.query insists on a socket.socket to recognise UDP) that never touches the
    network: it swallows what is sent and serves the scripted frames."""

    def __init__(self, kind, frames, ev, tail=b""):
        super().__init__(socket.AF_INET, kind)
        self._dgrams = list(frames)
        # TCP: the complete length-prefixed frames, then `tail` = the beginning of one more frame that the
        # connection loses half-way (EOF inside a message); with tail = b"" the EOF falls on a message boundary
        self._buf = b"".join(struct.pack("!H", len(f)) + f for f in frames) + tail
        self._ev = ev
        self.sent = []

    def connect_ex(self, address):
        return 0

    def send(self, data, *a):
        self.sent.append(bytes(data))
        return len(data)

    def sendto(self, data, *a):
        self.sent.append(bytes(data))
        return len(data)

    def recv(self, n, *a):
        chunk, self._buf = self._buf[:n], self._buf[n:]
        if not chunk:
            self._ev.append({"op": "eof"})
        return chunk

    def recvfrom(self, n, *a):
        if not self._dgrams:
            self._ev.append({"op": "eof"})
            raise dns.exception.Timeout
        return self._dgrams.pop(0), ("10.0.0.53", 53)


class AsyncScripted(dns.asyncbackend.Socket):
    """Scripted socket for dns.asyncquery (handed out by a scripted Backend passed through the public backend= parameter)."""

    def __init__(self, kind, frames, ev, tail=b""):
        super().__init__(socket.AF_INET, kind)
        self._sync = ScriptedSocket(kind, frames, ev, tail)
        self.sent = self._sync.sent

    async def close(self):
        self._sync.close()

    async def sendto(self, what, destination, timeout):
        return self._sync.sendto(what, destination)

    async def recvfrom(self, size, timeout):
        return self._sync.recvfrom(size)

    async def sendall(self, what, timeout):
        return self._sync.send(what)

    async def recv(self, size, timeout):
        return self._sync.recv(size)


def exit_event(zone, relativize, how="library"):
    open_txns = 0
    for txn in _CREATED:
        if not getattr(txn, "_ended", False):
            open_txns += 1
    wtxn = getattr(zone, "_write_txn", None) is not None
    usable = False
    if not wtxn:
        try:
            with zone.writer() as txn:
                txn.get(owner("@", not relativize), "SOA")
            usable = True
        except Stuck:
            raise
        except BaseException:  # noqa: BLE001
            usable = False
    return {"op": "exit", "how": how, "zone": project_zone(zone, relativize), "open": open_txns, "wtxn": wtxn, "usable": usable}


def replay_query(script, zclass, relativize, tid, umode="", use_async=False, tail="none"):
    """The same transfer through dns.query.inbound_xfr / dns.asyncquery.inbound_xfr: scripted sockets, real framing,
    real message parsing, the real read loop, the real choice of transports for udp_mode in {NEVER, TRY_FIRST, ONLY}.
    Inbound.process_message is wrapped (in this process only) to record the per-message events.

    What the scripted server offers is a list of PHASES, one per socket the library opens:
      AXFR request, any udp_mode          [script over TCP]          (udp_mode only selects the transport of an IXFR)
      IXFR, UDP script, ONLY              [script over UDP]
      IXFR, UDP script, TRY_FIRST         [script over UDP, AXFR-style answer of the target over TCP]
      IXFR, TCP script, NEVER             [script over TCP]
      IXFR, TCP script, TRY_FIRST         [SOA-only "use TCP" answer over UDP, script over TCP]
    Every phase the library actually reaches is a transfer (trace) of its own: when the next socket is requested the
    zone is observed (exit event of the previous trace, initial zone of the next).  If the library opens no socket at
    all, the first trace consists of the exit event alone."""
    del _CREATED[:]
    init = sorted([r[0], r[1], r[2], list(r[3])] for r in script["zone0"])
    zone = make_zone(zclass, relativize, init)
    del _CREATED[:]
    req, udp = script["req"], bool(script["udp"])
    if not umode:
        umode = "NEVER" if not udp else "ONLY"
    base = list(script["base"])
    target = sorted([r[0], r[1], r[2], list(r[3])] for r in script["target"])
    msgs = [{"rcode": m["rcode"], "q": m["q"], "rrs": [[r[0], r[1], r[2], list(r[3])] for r in m["rrs"]]}
            for m in script["msgs"]]
    mode = "aquery" if use_async else "query"
    soa = [r for r in target if r[1] == "SOA"]
    rest = [r for r in target if r[1] != "SOA"]
    main = {"udp": udp, "msgs": msgs, "kind": script["kind"], "fault": script["fault"]["k"], "tail": tail}
    phases = [main]
    if req == "ixfr" and umode == "TRY_FIRST":
        if udp:
            phases.append({"udp": False, "kind": "axfrstyle", "fault": "none", "tail": "none",
                           "msgs": [{"rcode": 0, "q": "ok", "rrs": soa + rest[:1]}, {"rcode": 0, "q": "none", "rrs": rest[1:] + soa}]})
        else:
            phases.insert(0, {"udp": True, "kind": "usetcp", "fault": "none", "tail": "none",
                              "msgs": [{"rcode": 0, "q": "ok", "rrs": soa}]})
    serial = (base[0] * 65536 + base[1]) if req == "ixfr" else None
    query, _ = dns.xfr.make_query(zone, serial)

    def frames(ms):
        return [build_message(m, req, query, relativize, "wire-bytes", None) for m in ms]

    def new_trace(k):
        ph = phases[k] if k < len(phases) else {"udp": False, "kind": "unscripted-extra-socket", "fault": "none", "tail": "none", "msgs": []}
        return {"tid": tid if k == 0 else "%s.p%d" % (tid, k + 1), "zclass": zclass, "rel": relativize, "via": mode, "umode": umode,
                "req": req, "udp": ph["udp"], "base": base, "init": init if k == 0 else project_zone(zone, relativize),
                "zone0": project_zone(zone, relativize), "msgs": ph["msgs"], "kind": ph["kind"], "fault": ph["fault"],
                "target": target, "tail": ph["tail"], "ev": []}

    traces = [new_trace(0)]
    current = {"k": -1, "n": 0}
    sockets = []
    Sock = AsyncScripted if use_async else ScriptedSocket

    def factory(af, kind, proto=0):
        current["k"] += 1
        k = current["k"]
        if k > 0:
            # the library moves on to another transport: the previous transfer is over; observe the zone now
            traces[-1]["ev"].append(exit_event(zone, relativize))
            del _CREATED[:]
            traces.append(new_trace(k))
        tr = traces[-1]
        tr["sock"] = "udp" if kind == socket.SOCK_DGRAM else "tcp"
        current["n"] = 0
        # how the TCP connection ends once the scripted messages are out: "none" = clean EOF on the message boundary,
        # "len" = EOF after one octet of the next length prefix, "body" = EOF in the middle of the next message
        tail_bytes = b""
        if tr["tail"] != "none" and kind != socket.SOCK_DGRAM:
            ms = tr["msgs"]
            nxt = frames([{"rcode": 0, "q": "none", "rrs": (ms[-1]["rrs"] if ms and ms[-1]["rrs"] else soa)}])[0]
            tail_bytes = b"\x00" if tr["tail"] == "len" else struct.pack("!H", len(nxt)) + nxt[:len(nxt) // 2]
        sock = Sock(kind, frames(tr["msgs"]), tr["ev"], tail_bytes)
        sockets.append(sock)
        return sock

    orig_pm = dns.xfr.Inbound.process_message
    orig_factory = dns.query.socket_factory

    def recording_pm(self, message):
        current["n"] += 1
        rec = {"op": "msg", "i": current["n"]}
        try:
            done = orig_pm(self, message)
            rec.update(res="ok", exc="", ret=bool(done))
            return done
        except Stuck:
            rec.update(res="err", exc="DRIVER-WATCHDOG", ret=False)
            raise
        except BaseException as e:  # noqa: BLE001
            rec.update(res="err", exc=type(e).__name__, ret=False)
            raise
        finally:
            rec["stx"], rec["st"] = state_of(self)
            rec["txn"] = getattr(self, "txn", None) is not None
            traces[-1]["ev"].append(rec)

    dns.xfr.Inbound.process_message = recording_pm
    dns.query.socket_factory = factory
    try:
        try:
            if use_async:
                class ScriptedBackend(dns.asyncbackend.Backend):
                    def name(self):
                        return "scripted"

                    async def make_socket(self, af, socktype, proto=0, source=None, destination=None, timeout=None,
                                          ssl_context=None, server_hostname=None):
                        return factory(af, socktype, proto)

                asyncio.run(dns.asyncquery.inbound_xfr("10.0.0.53", zone, query, udp_mode=getattr(dns.asyncquery.UDPMode, umode),
                                                       backend=ScriptedBackend()))
            else:
                dns.query.inbound_xfr("10.0.0.53", zone, query, udp_mode=getattr(dns.query.UDPMode, umode))
            outcome = ""
        except Stuck:
            raise
        except BaseException as e:  # noqa: BLE001
            outcome = type(e).__name__
    finally:
        dns.xfr.Inbound.process_message = orig_pm
        dns.query.socket_factory = orig_factory
        for sock in sockets:
            (sock._sync if use_async else sock).close()
    last = traces[-1]
    last["ev"].append(exit_event(zone, relativize))
    last["raised"] = outcome          # what inbound_xfr itself did: "" = returned normally
    last["reached"] = len(sockets)    # sockets the library opened
    # the request that went out: an IXFR query carries the base serial in its authority section
    for sock in sockets[:1]:
        if sock.sent:
            wire = sock.sent[0] if sock.type == socket.SOCK_DGRAM else bytes(sock.sent[0])[2:]
            q = dns.message.from_wire(wire)
            traces[0]["sent"] = {"rdtype": dns.rdatatype.to_text(q.question[0].rdtype),
                                 "serial": limbs(dns.xfr.extract_serial_from_query(q))}
    traces[0]["extra"] = traces[1:]
    return traces[0]


def replay(script, zclass, relativize, via, tid, tail="none", umode="", leave="propagate"):
    """leave (direct / wire paths) = how the caller leaves the `with dns.xfr.Inbound(...)` block:
    "propagate": every exception (the transfer's, or the caller's own EOFError when the messages run out before the
                 transfer is done) travels out of the block;
    "caught":    the caller handles the transfer's exception inside the block (as tests/test_xfr.py does) and, like
                 "clean", just stops when the messages run out; the block is then left normally;
    "clean":     exceptions of the transfer propagate, but when the messages run out the block is left normally."""
    if via in ("query", "query-tryfirst", "aquery", "aquery-tryfirst"):
        if via.endswith("-tryfirst"):
            umode = "TRY_FIRST"
        return replay_query(script, zclass, relativize, tid, umode, via.startswith("aquery"), tail)
    del _CREATED[:]
    init = sorted([r[0], r[1], r[2], list(r[3])] for r in script["zone0"])
    zone = make_zone(zclass, relativize, init)
    del _CREATED[:]
    req, udp = script["req"], bool(script["udp"])
    base = list(script["base"])
    msgs = [{"rcode": m["rcode"], "q": m["q"], "rrs": [[r[0], r[1], r[2], list(r[3])] for r in m["rrs"]]}
            for m in script["msgs"]]
    trace = {"tid": tid, "zclass": zclass, "rel": relativize, "via": via, "req": req, "udp": udp, "base": base,
             "init": init, "zone0": project_zone(zone, relativize), "msgs": msgs, "kind": script["kind"],
             "fault": script["fault"]["k"], "target": sorted([r[0], r[1], r[2], list(r[3])] for r in script["target"]),
             "leave": leave, "ev": []}
    ev = trace["ev"]
    how = "clean"
    rdtype = dns.rdatatype.IXFR if req == "ixfr" else dns.rdatatype.AXFR
    serial = (base[0] * 65536 + base[1]) if req == "ixfr" else None
    query, qserial = dns.xfr.make_query(zone, serial)
    if req == "ixfr" and serial == 0:
        # make_query(serial=0) means "use the zone's serial", which is 0 here as well
        serial = qserial
    fwo = zone.from_wire_origin()
    try:
        with dns.xfr.Inbound(zone, rdtype, serial, udp) as ib:
            done = False
            i = 0
            while not done:
                if i >= len(msgs):
                    ev.append({"op": "eof"})
                    if leave == "propagate":
                        raise EOFError
                    break
                rec = {"op": "msg", "i": i + 1}
                try:
                    m = build_message(msgs[i], req, query, relativize, via, fwo, not udp)
                    done = ib.process_message(m)
                    rec.update(res="ok", exc="", ret=bool(done))
                except Stuck:
                    rec.update(res="err", exc="DRIVER-WATCHDOG", ret=False)
                    raise
                except BaseException as e:  # noqa: BLE001 - every outcome is an event
                    rec.update(res="err", exc=type(e).__name__, ret=False)
                    if leave == "caught":
                        how = "caught"
                        break
                    raise
                finally:
                    rec["stx"], rec["st"] = state_of(ib)
                    rec["txn"] = getattr(ib, "txn", None) is not None
                    ev.append(rec)
                i += 1
    except Stuck:
        raise
    except BaseException:  # noqa: BLE001
        how = "propagate"
    ev.append(exit_event(zone, relativize, how))
    return trace


def _alarm(signum, frame):
    raise Stuck()


def run_job(job):
    script, zclass, relativize, via, tid = job[:5]
    tail = job[5] if len(job) > 5 else "none"
    umode = job[6] if len(job) > 6 else ""
    leave = job[7] if len(job) > 7 else "propagate"
    # hang detection without wall-clock time: blocking waits raise Stuck through the threading shim above, busy
    # loops run into a CPU-time limit; the wall-clock timer is a very large last resort only
    try:
        signal.signal(signal.SIGVTALRM, _alarm)
        signal.signal(signal.SIGALRM, _alarm)
        signal.setitimer(signal.ITIMER_VIRTUAL, CPU_LIMIT_S)
        signal.setitimer(signal.ITIMER_REAL, LAST_RESORT_S)
    except ValueError:  # not in the main thread
        pass
    try:
        return replay(script, zclass, relativize, via, tid, tail, umode, leave)
    except (Exception, Stuck) as e:  # a driver failure becomes an event nobody matches
        return {"tid": tid, "zclass": zclass, "rel": relativize, "via": via, "req": "axfr", "udp": False, "base": [],
                "init": [], "zone0": [], "msgs": [], "kind": "driver-error", "fault": "none", "target": [],
                "ev": [{"op": "driver-error", "exc": repr(e)}]}
    finally:
        try:
            signal.setitimer(signal.ITIMER_VIRTUAL, 0)
            signal.setitimer(signal.ITIMER_REAL, 0)
        except ValueError:
            pass
