"""C13 driver: feed a scripted response stream (from Gen_XfrInbound) to a real
dns.xfr.Inbound on a real zone, the way dns.query._inbound_xfr does, and record one event
per message (outcome, returned flag, state-machine attributes), an `eof` event when the
stream ends before the transfer is complete, and at context exit the projection of the
zone and whether any transaction was left open.  Only drives and projects; the verdicts
are Trace_XfrInbound's."""
import dns.btreezone
import dns.exception
import dns.message
import dns.name
import dns.rcode
import dns.rdata
import dns.rdataclass
import dns.rdataset
import dns.rdatatype
import dns.rrset
import dns.versioned
import dns.xfr
import dns.zone

ORIGIN = dns.name.from_text("example.")
OTHER = dns.name.from_text("other.example.")
_CREATED = []


def _tracked(cls):
    class Tracked(cls):
        def writer(self, replacement=False):
            txn = super().writer(replacement)
            _CREATED.append(txn)
            return txn

    Tracked.__name__ = "Tracked" + cls.__name__
    return Tracked


ZCLASSES = {"plain": _tracked(dns.zone.Zone), "versioned": _tracked(dns.versioned.Zone),
            "btree": _tracked(dns.btreezone.Zone)}

_RD_TEXT = {"NS": "ns%d.other.", "A": "10.0.0.%d", "TXT": '"t%d"', "AAAA": "2001:db8::%d", "MX": "10 mx%d.other."}
_cache = {}


def make_rdata(ty, rd):
    key = (ty, tuple(rd))
    r = _cache.get(key)
    if r is None:
        if ty == "SOA":
            text = "ns.other. admin.other. %d 3600 600 86400 300" % (rd[0] * 65536 + rd[1])
        else:
            text = _RD_TEXT[ty] % rd[0]
        r = dns.rdata.from_text(dns.rdataclass.IN, ty, text)
        _cache[key] = r
    return r


def rd_id(ty, rd):
    if ty == "SOA":
        try:
            if rd != make_rdata("SOA", [rd.serial >> 16, rd.serial & 0xFFFF]):
                return [-1, -1]
            return [rd.serial >> 16, rd.serial & 0xFFFF]
        except Exception:
            return [-1, -1]
    if ty in _RD_TEXT:
        for k in range(0, 12):
            if make_rdata(ty, [k]) == rd:
                return [k]
    return [-1]


def owner(n, absolute):
    rel = dns.name.empty if n == "@" else dns.name.from_text(n, None)
    return rel.derelativize(ORIGIN) if absolute else rel


def name_text(name, relativize):
    if relativize:
        return ("ABS:" + name.to_text()) if name.is_absolute() else name.to_text()
    if not name.is_absolute():
        return "REL:" + name.to_text()
    if not name.is_subdomain(ORIGIN):
        return "OUT:" + name.to_text()
    return name.relativize(ORIGIN).to_text()


def project_zone(zone, relativize):
    out = []
    for name, node in zone.nodes.items():
        if len(node.rdatasets) == 0:
            out.append([name_text(name, relativize), "EMPTYNODE", 0, [0]])
        for rds in node.rdatasets:
            ty = dns.rdatatype.to_text(rds.rdtype)
            if rds.covers != dns.rdatatype.NONE:
                ty += "/" + dns.rdatatype.to_text(rds.covers)
            if len(rds) == 0:
                out.append([name_text(name, relativize), ty, int(rds.ttl), [-2]])
            for rd in rds:
                out.append([name_text(name, relativize), ty, int(rds.ttl), rd_id(ty, rd)])
    out.sort()
    return out


def make_zone(zclass, relativize, recs):
    zone = ZCLASSES[zclass](ORIGIN, relativize=relativize)
    with zone.writer(True) as txn:
        for n, ty, ttl, rd in recs:
            txn.add(owner(n, not relativize), ttl, make_rdata(ty, rd))
    return zone


def limbs(v):
    return [] if v is None else [int(v) >> 16, int(v) & 0xFFFF]


def build_message(msg, req, query, relativize, via, from_wire_origin, multi=True):
    """One response message holding msg["rrs"], one RRset per record (order matters)."""
    rdtype = dns.rdatatype.IXFR if req == "ixfr" else dns.rdatatype.AXFR
    absolute = via == "wire" or not relativize
    m = dns.message.make_response(query)
    m.set_rcode(msg["rcode"])
    m.authority = []
    q = msg["q"]
    if q == "none":
        m.question = []
    else:
        qname = ORIGIN if absolute else dns.name.empty
        qtype = rdtype
        if q == "wrongname":
            qname = OTHER if absolute else OTHER.relativize(ORIGIN)
        elif q == "wrongtype":
            qtype = dns.rdatatype.AXFR if req == "ixfr" else dns.rdatatype.IXFR
        m.question = [dns.rrset.RRset(qname, dns.rdataclass.IN, qtype)]
    m.answer = []
    for n, ty, ttl, rd in msg["rrs"]:
        rrs = dns.rrset.RRset(owner(n, absolute), dns.rdataclass.IN, dns.rdatatype.from_text(ty))
        rrs.add(make_rdata(ty, rd), ttl)
        m.answer.append(rrs)
    if via == "direct":
        return m
    wire = m.to_wire()
    return dns.message.from_wire(wire, xfr=True, origin=from_wire_origin, multi=multi,
                                 one_rr_per_rrset=(req == "ixfr"))


def state_of(ib):
    names = ("incremental", "expecting_SOA", "delete_mode", "done", "serial")
    if not all(hasattr(ib, n) for n in names):
        return False, [False, False, False, False, []]
    try:
        return True, [bool(ib.incremental), bool(ib.expecting_SOA), bool(ib.delete_mode), bool(ib.done), limbs(ib.serial)]
    except Exception:
        return False, [False, False, False, False, []]


def replay(script, zclass, relativize, via, tid):
    del _CREATED[:]
    init = sorted([r[0], r[1], r[2], list(r[3])] for r in script["zone0"])
    zone = make_zone(zclass, relativize, init)
    del _CREATED[:]
    req, udp = script["req"], bool(script["udp"])
    base = list(script["base"])
    msgs = [{"rcode": m["rcode"], "q": m["q"], "rrs": [[r[0], r[1], r[2], list(r[3])] for r in m["rrs"]]}
            for m in script["msgs"]]
    trace = {"tid": tid, "zclass": zclass, "rel": relativize, "via": via, "req": req, "udp": udp, "base": base,
             "init": init, "zone0": project_zone(zone, relativize), "msgs": msgs, "kind": script["kind"],
             "fault": script["fault"]["k"], "target": sorted([r[0], r[1], r[2], list(r[3])] for r in script["target"]),
             "ev": []}
    ev = trace["ev"]
    rdtype = dns.rdatatype.IXFR if req == "ixfr" else dns.rdatatype.AXFR
    serial = (base[0] * 65536 + base[1]) if req == "ixfr" else None
    query, qserial = dns.xfr.make_query(zone, serial)
    if req == "ixfr" and serial == 0:
        # make_query(serial=0) means "use the zone's serial", which is 0 here as well
        serial = qserial
    fwo = zone.from_wire_origin()
    try:
        with dns.xfr.Inbound(zone, rdtype, serial, udp) as ib:
            done = False
            i = 0
            while not done:
                if i >= len(msgs):
                    ev.append({"op": "eof"})
                    raise EOFError
                rec = {"op": "msg", "i": i + 1}
                try:
                    m = build_message(msgs[i], req, query, relativize, via, fwo, not udp)
                    done = ib.process_message(m)
                    rec.update(res="ok", exc="", ret=bool(done))
                except BaseException as e:  # noqa: BLE001 - every outcome is an event
                    rec.update(res="err", exc=type(e).__name__, ret=False)
                    raise
                finally:
                    rec["stx"], rec["st"] = state_of(ib)
                    rec["txn"] = getattr(ib, "txn", None) is not None
                    ev.append(rec)
                i += 1
    except BaseException:  # noqa: BLE001
        pass
    open_txns = 0
    for txn in _CREATED:
        if not getattr(txn, "_ended", False):
            open_txns += 1
    wtxn = getattr(zone, "_write_txn", None) is not None
    usable = False
    if not wtxn:
        try:
            with zone.writer() as txn:
                txn.get(owner("@", not relativize), "SOA")
            usable = True
        except BaseException:  # noqa: BLE001
            usable = False
    ev.append({"op": "exit", "zone": project_zone(zone, relativize), "open": open_txns, "wtxn": wtxn, "usable": usable})
    return trace


def run_job(job):
    script, zclass, relativize, via, tid = job
    try:
        return replay(script, zclass, relativize, via, tid)
    except Exception as e:  # a driver failure becomes an event nobody matches
        return {"tid": tid, "zclass": zclass, "rel": relativize, "via": via, "req": "axfr", "udp": False, "base": [],
                "init": [], "zone0": [], "msgs": [], "kind": "driver-error", "fault": "none", "target": [],
                "ev": [{"op": "driver-error", "exc": repr(e)}]}
