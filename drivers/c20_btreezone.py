"""C20 driver: replay a zone history (from Gen_BTreeZone) on dns.btreezone.Zone and record,
after every load / commit / rollback, the projection of the newest version: content, the
(name, flags) list in iteration order, list(version.delegations) and bounds(q) for every
query name (or the exception).  The initial load is done either on a zone created with its
origin (replacement transaction) or by dns.zone.from_text on a zone created WITHOUT an origin
(the first transaction learns it from $ORIGIN).  Only drives and projects; Trace_BTreeZone judges.

Names are exchanged as 1-based indices into the name table printed by TLC (canonical,
relative to the origin); a name that is not in the table, or that has the wrong
relativity for the zone, is projected to -1.  0 means "no name" (right bound None)."""
import functools

import dns.btree
import dns.btreezone
import dns.name
import dns.rdata
import dns.rdataclass
import dns.rdataset
import dns.rdatatype
import dns.zone

ORIGIN = dns.name.from_text("example.")

_RD_TEXT = {
    "NS": "ns%d.other.",
    "A": "10.0.0.%d",
    "TXT": '"t%d"',
    "CNAME": "target%d.other.",
    "SOA": "ns.other. admin.other. %d 3600 600 86400 300",
}
_rd_cache = {}


def make_rdata(ty, k):
    rd = _rd_cache.get((ty, k))
    if rd is None:
        rd = dns.rdata.from_text(dns.rdataclass.IN, dns.rdatatype.from_text(ty), _RD_TEXT[ty] % k)
        _rd_cache[(ty, k)] = rd
    return rd


def rd_id(ty, rd):
    for k in range(0, 6):
        try:
            if make_rdata(ty, k) == rd:
                return k
        except Exception:
            break
    return -1


class Table:
    def __init__(self, table):
        # table: list of names; a name is a list of labels; a label is a list of octets
        self.labels = [tuple(bytes(lb) for lb in n) for n in table]
        self.index = {n: i + 1 for i, n in enumerate(self.labels)}

    def name(self, labels, relativize, spelling):
        """dns.name.Name for a label-tuple relative to the origin, spelled the way the zone
        stores names ('nat') or the other way ('oth')."""
        rel = dns.name.Name(labels)
        absolute = (not relativize) if spelling == "nat" else relativize
        return rel.derelativize(ORIGIN) if absolute else rel

    def by_index(self, i, relativize, spelling="nat"):
        return self.name(self.labels[i - 1], relativize, spelling)

    def project(self, name, relativize):
        if name is None:
            return 0
        try:
            if relativize:
                if name.is_absolute():
                    return -1
            else:
                if not name.is_absolute() or not name.is_subdomain(ORIGIN):
                    return -1
                name = name.relativize(ORIGIN)
            return self.index.get(tuple(lb.lower() for lb in name.labels), -1)
        except Exception:
            return -1


def call(fn):
    try:
        return "ok", "", fn()
    except BaseException as e:  # noqa: BLE001 - every outcome is an event
        return "err", type(e).__name__, None


def observe(zone, tab, relativize, queries, spelling, bt=0, shape=None):
    """Projection of the newest committed version."""
    with zone.reader() as txn:
        v = txn.version
        want_t = bt or dns.btree.DEFAULT_T
        if v.nodes.t != want_t or v.delegations.t != want_t:
            raise RuntimeError("branching factor %s/%s, wanted %s" % (v.nodes.t, v.delegations.t, want_t))
        if shape is not None:
            shape[0] = shape[0] or not v.nodes.root.is_leaf
            shape[1] = shape[1] or not v.delegations.root.is_leaf
        content, flags = [], []
        for name, node in v.nodes.items():
            i = tab.project(name, relativize)
            flags.append([i, int(node.flags)])
            for rds in node.rdatasets:
                ty = dns.rdatatype.to_text(rds.rdtype)
                content.append([i, ty, sorted(rd_id(ty, rd) for rd in rds)])
        content.sort()
        delegs = [tab.project(n, relativize) for n in v.delegations]
        bounds = []
        for q in queries:
            qn = tab.name(tuple(bytes(lb) for lb in q), relativize, spelling)
            res, exc, b = call(lambda: v.bounds(qn))
            if res == "ok":
                bounds.append(["ok", tab.project(b.left, relativize), tab.project(b.right, relativize),
                               tab.project(b.closest_encloser, relativize), bool(b.is_equal), bool(b.is_delegation)])
            else:
                bounds.append([exc or "err", -1, -1, -1, False, False])
    return {"content": content, "flags": flags, "delegs": delegs, "bounds": bounds}


# set by the check before the worker processes are forked
TABLE = None  # Table
QSETS = {}  # "U" / "W" -> list of query names (lists of labels, labels = lists of octets)


def setup(table, qsets):
    global TABLE, QSETS
    TABLE = Table(table)
    QSETS = qsets


_zone_classes = {}


def zone_class(bt):
    """dns.btreezone.Zone (bt = 0: default branching factor t = 127, where every tree of a small zone
    is a single leaf) or a subclass whose name tree and delegation index are B-trees with branching
    factor t = bt, so that splits, merges, steals and multi-level copy-on-write happen with a
    handful of names.  Nothing in /repo is changed: the name tree comes from map_factory, the
    delegation index of a replacement version from the WritableVersion constructor (later versions
    clone both and inherit t)."""
    if bt not in _zone_classes:
        if not bt:
            _zone_classes[bt] = dns.btreezone.Zone
        else:
            class SmallVersion(dns.btreezone.WritableVersion):
                def __init__(self, zone, replacement=False):
                    super().__init__(zone, replacement)
                    if replacement:
                        self.delegations = dns.btreezone.Delegations(t=bt)

            class SmallZone(dns.btreezone.Zone):
                map_factory = functools.partial(dns.btree.BTreeDict, t=bt)
                writable_version_factory = SmallVersion

            _zone_classes[bt] = SmallZone
    return _zone_classes[bt]


def zone_text(tab, recs, spelling):
    """Zone-file text of a load: a $ORIGIN line, then one line per record in the given order;
    owner names relative ('nat') or absolute ('oth')."""
    lines = ["$ORIGIN %s" % ORIGIN.to_text(), "$TTL 300"]
    for i, ty, k in recs:
        rel = dns.name.Name(tab.labels[i - 1])
        owner = rel.derelativize(ORIGIN).to_text() if spelling == "oth" else rel.to_text()
        lines.append("%s IN %s %s" % (owner, ty, _RD_TEXT[ty] % k))
    return "\n".join(lines) + "\n"


def replay(hist, qset, relativize, spelling, tid, mk="origin", bt=0):
    """mk = "origin": the zone is created with its origin and loaded by a replacement transaction;
    mk = "learn": the zone is created WITHOUT an origin by dns.zone.from_text and its first
    (replacement) transaction learns the origin from the $ORIGIN line of the text."""
    tab = TABLE
    queries = QSETS[qset]
    trace = {"tid": tid, "rel": relativize, "sp": spelling, "qset": qset, "mk": mk, "bt": bt, "ev": []}
    ev = trace["ev"]
    zclass = zone_class(bt)
    shape = [False, False]  # was the name tree / the delegation index ever more than one leaf?
    trace["shape"] = shape
    zone = zclass(ORIGIN, relativize=relativize) if mk == "origin" else None
    txn = None
    for e in hist:
        op = e["op"]
        rec = dict(e)
        if op == "load" and zone is None:
            res, exc, zone = call(lambda: dns.zone.from_text(
                zone_text(tab, e["recs"], spelling), origin=None, relativize=relativize,
                zone_factory=zclass, check_origin=False))
            if zone is None:
                rec.update(res=res, exc=exc, obs={"content": [], "flags": [], "delegs": [], "bounds": []})
                ev.append(rec)
                break
            rec.update(res=res, exc=exc, obs=observe(zone, tab, relativize, queries, spelling, bt, shape))
        elif op == "load":
            # a replacement transaction adding one record at a time, like the zone file reader
            def load():
                with zone.writer(True) as t:
                    for i, ty, k in e["recs"]:
                        t.add(tab.by_index(i, relativize, spelling), 300, make_rdata(ty, k))
            res, exc, _ = call(load)
            rec.update(res=res, exc=exc, obs=observe(zone, tab, relativize, queries, spelling, bt, shape))
        elif op == "begin":
            res, exc, txn = call(lambda: zone.writer())
            rec.update(res=res, exc=exc)
        elif op == "end":
            res, exc, _ = call(txn.commit if e["how"] == "commit" else txn.rollback)
            rec.update(res=res, exc=exc, obs=observe(zone, tab, relativize, queries, spelling, bt, shape))
            txn = None
        else:
            name = tab.by_index(e["name"], relativize, spelling)
            ty, k = e["type"], e["k"]
            if op == "put":
                rds = dns.rdataset.from_rdata(300, make_rdata(ty, k))
                res, exc, _ = call(lambda: txn.replace(name, rds))
            elif op == "add":
                res, exc, _ = call(lambda: txn.add(name, 300, make_rdata(ty, k)))
            elif op == "delrd":
                res, exc, _ = call(lambda: txn.delete(name, make_rdata(ty, k)))
            elif op == "delrds":
                res, exc, _ = call(lambda: txn.delete(name, dns.rdatatype.from_text(ty)))
            elif op == "delnode":
                res, exc, _ = call(lambda: txn.delete(name))
            else:
                raise ValueError("unknown op %r" % op)
            rec.update(res=res, exc=exc)
        ev.append(rec)
    return trace


def run_job(job):
    hist, qset, relativize, spelling, tid, mk, bt = job
    try:
        return replay(hist, qset, relativize, spelling, tid, mk, bt)
    except Exception as e:  # a driver failure is reported as an unmatched trace
        return {"tid": tid, "rel": relativize, "sp": spelling, "qset": qset, "mk": mk, "bt": bt,
                "ev": [{"op": "driver-error", "exc": repr(e)}]}
