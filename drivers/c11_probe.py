"""C11 driver, part 2: the immutability surface.

For every object reachable from a read transaction of a versioned zone (the transaction,
its version, the node map, every node, every node's rdataset tuple, every rdataset, every
rdataset's item map, the delegation set of a B-tree zone, and the zone's own
non-transactional API) the driver

  1. builds a MUTABLE TWIN with the same content (dict / Rdataset / Node / unfrozen
     copy-on-write clone of the B-tree / writable version and write transaction of a
     scratch zone / plain dns.zone.Zone),
  2. enumerates candidate calls: every public callable of the twin or of the object, plus
     the container / attribute dunders, each with argument tuples drawn from per-parameter
     pools (signature driven),
  3. keeps a candidate only if it CHANGES THE TWIN (a call that could not change anything
     proves nothing) - such a (method, arguments) pair is a witnessed mutator,
  4. applies every witnessed mutator to the real object and logs
     call(method, args, raised?, digest of the object after, digest of the whole zone after).

No verdicts here: Trace_ValueObjectVZ accepts a call event only if it raised and both
digests are unchanged; there is no action for a successful mutation.  The final event
lists which catalogue names exist on the twin, so the trace spec can assert that the
spec's Mutators catalogue was witnessed."""
import hashlib
import inspect
import itertools

import dns.btree
import dns.btreezone
import dns.immutable
import dns.name
import dns.node
import dns.rdata
import dns.rdataclass
import dns.rdataset
import dns.rdatatype
import dns.set
import dns.versioned
import dns.zone

from drivers import c11_versioned as base

IN = dns.rdataclass.IN
A = dns.rdatatype.A
NS = dns.rdatatype.NS
TXT = dns.rdatatype.TXT
SOA = dns.rdatatype.SOA
NONE = dns.rdatatype.NONE
ORIGIN = base.ORIGIN

DUNDERS = ["__setitem__", "__delitem__", "__iadd__", "__isub__", "__ior__", "__iand__", "__ixor__", "__imul__",
           "__setattr__", "__delattr__"]
# calls that legitimately end / create transactions or change the retention policy are not
# mutators of a snapshot (and writer() would block)
EXCLUDE = {
    "txn": {"commit", "rollback", "__exit__", "__enter__"},
    "zone": {"reader", "writer", "set_max_versions", "set_pruning_policy"},
}
MAX_COMBOS = 400
MAX_NOOPS = 24      # no-op variants applied per (object, method)
WITNESSED = {}      # kind -> method names seen to change a twin (reset per snapshot)


# ----------------------------------------------------------------------------- projections
def p_rdataset(r):
    return ("rds", int(r.rdclass), int(r.rdtype), int(r.covers), int(r.ttl), tuple(rd.to_text() for rd in r.items), len(r))


def p_node(n):
    return ("node", int(getattr(n, "flags", 0)), int(getattr(n, "id", 0)), tuple(p_rdataset(r) for r in n.rdatasets),
            type(n.rdatasets).__name__)


def p_nodes(m):
    return ("nodes", tuple((k.to_text(), p_node(v)) for k, v in m.items()), len(m))


def p_deleg(d):
    return ("deleg", tuple(k.to_text() for k in d), len(d))


def p_version(v):
    return ("version", int(v.id), str(v.origin), p_nodes(v.nodes),
            p_deleg(v.delegations) if hasattr(v, "delegations") else ())


def p_txn(t):
    return ("txn", p_version(t.version), bool(t.read_only),
            tuple((n.to_text(), p_rdataset(r)) for n, r in t.iterate_rdatasets()))


def p_zone(z):
    return ("zone", tuple(p_version(v) for v in z._versions), p_nodes(z.nodes), str(z.origin), int(z.rdclass),
            len(z._readers))


def p_plainzone(z):
    return ("zone", p_nodes(z.nodes), str(z.origin), int(z.rdclass))


def p_items(d):
    return ("items", tuple((k.to_text(), repr(d[k])) for k in d), len(d))


def p_seq(s):
    return ("seq", tuple(p_rdataset(r) for r in s), len(s))


def digest(x):
    return hashlib.sha1(repr(x).encode()).hexdigest()[:12]


def safe_digest(fn, obj):
    try:
        return digest(fn(obj))
    except BaseException as e:  # noqa: BLE001
        return "unprojectable:" + type(e).__name__


# ----------------------------------------------------------------------------- twins
def twin_rdataset(r):
    tw = dns.rdataset.Rdataset(r.rdclass, r.rdtype, r.covers, r.ttl)
    for rd in r:
        tw.add(rd)
    return tw


def twin_node(zone, n):
    tw = zone.node_factory()
    tw.rdatasets = [twin_rdataset(r) for r in n.rdatasets]
    if hasattr(n, "id"):
        tw.id = n.id
    if hasattr(n, "flags"):
        tw.flags = n.flags
    return tw


def twin_deleg(d, members):
    if d._immutable:
        return dns.btreezone.Delegations(original=d)  # copy-on-write clone of the frozen set
    tw = dns.btreezone.Delegations()
    for k in members:
        tw.add(k)
    return tw


def capture(version):
    """the content of a version as plain data, taken before any mutation attempt"""
    return [(name, [twin_rdataset(r) for r in node.rdatasets]) for name, node in version.items()]


def scratch_writer(zclass, relativize, content):
    """an open write transaction of a scratch zone holding `content`"""
    z = base.ZCLASSES[zclass](ORIGIN, relativize=relativize)
    if not content:
        return z.writer(True)
    with z.writer(True) as txn:
        for name, rdss in content:
            for r in rdss:
                txn.add(name, twin_rdataset(r))
    z.set_max_versions(None)
    return z.writer()


def twin_plainzone(relativize, content):
    z = dns.zone.Zone(ORIGIN, relativize=relativize)
    for name, rdss in content:
        n = dns.node.Node()
        n.rdatasets = [twin_rdataset(r) for r in rdss]
        z.nodes[name] = n
    return z


# ----------------------------------------------------------------------------- argument pools
class Env:
    """values used as call arguments, all relative to one snapshot"""

    def __init__(self, zone, relativize, version):
        self.zone = zone
        self.rel = relativize
        names = list(version.keys())
        self.present = names[0] if names else base.owner("@", relativize)
        for n in names:
            if n == base.owner("a", relativize):
                self.present = n
        self.absent = base.owner("zz", relativize)
        self.rd_new = base.a_rdata(9)
        self.rd_old = base.a_rdata(1)
        self.ns_new = dns.rdata.from_text(IN, NS, "ns9.other.")

    def rds_new(self):
        return dns.rdataset.from_rdata(77, self.rd_new)

    def rds_old(self):
        return dns.rdataset.from_rdata(300, self.rd_old)

    def rds_txt(self):
        return dns.rdataset.from_text("IN", "TXT", 77, '"new"')

    def node_new(self):
        n = self.zone.node_factory()
        n.rdatasets.append(self.rds_new())
        return n


def pools(env, kind, target):
    """label -> factory, per parameter name; '*' is the generic pool"""
    E = env
    keyish = {"present": lambda: E.present, "absent": lambda: E.absent}
    rdish = {"rd_new": lambda: E.rd_new, "rd_old": lambda: E.rd_old}
    if isinstance(target, dns.rdataset.Rdataset) and target.rdtype != A and len(target) > 0:
        first = list(target)[0]
        same = {"SOA": base.soa_rdata(4242), "NS": E.ns_new}.get(dns.rdatatype.to_text(target.rdtype))
        rdish = {"rd_old": lambda: first}
        if same is not None:
            rdish["rd_new"] = lambda: same

    def rds_same_type_new():
        if isinstance(target, dns.rdataset.Rdataset) and "rd_new" in rdish:
            return dns.rdataset.from_rdata(77, rdish["rd_new"]())
        return E.rds_new()

    def rds_same_type_old():
        if isinstance(target, dns.rdataset.Rdataset) and len(target) > 0:
            return dns.rdataset.from_rdata(300, rdish["rd_old"]())
        return E.rds_old()

    def rds_empty():
        if isinstance(target, dns.rdataset.Rdataset):
            return dns.rdataset.Rdataset(target.rdclass, target.rdtype, target.covers, target.ttl)
        return dns.rdataset.Rdataset(IN, A, NONE, 300)

    def rds_equal():
        if isinstance(target, dns.rdataset.Rdataset):
            r = rds_empty()
            for rd in target:
                r.add(rd, target.ttl)
            return r
        return E.rds_old()

    setish = {"rds_new": rds_same_type_new, "rds_old": rds_same_type_old,
              "list_rd_new": lambda: [rdish.get("rd_new", rdish["rd_old"])()],
              # arguments that request no change
              "rds_empty": rds_empty, "rds_equal": rds_equal, "empty_list": lambda: []}
    cur_ttl = int(target.ttl) if isinstance(target, dns.rdataset.Rdataset) else 300
    P = {
        "rdclass": {"IN": lambda: IN},
        "rdtype": {"A": lambda: A, "TXT": lambda: TXT, "NS": lambda: NS, "SOA": lambda: SOA},
        "covers": {"NONE": lambda: NONE},
        "create": {"True": lambda: True},
        "ttl": {"77": lambda: 77, "same": lambda: cur_ttl, "larger": lambda: cur_ttl + 100},
        "rd": rdish, "item": rdish,
        "other": setish, "items": setish,
        "replacement": {"rds_new": E.rds_new, "rds_txt": E.rds_txt},
        "rdataset": {"rds_new": E.rds_new, "rds_txt": E.rds_txt},
        "i": {"0": lambda: 0, "slice": lambda: slice(0, 1)},
        "name": keyish, "key": keyish,
        "in_order": {"True": lambda: True},
        "elt": {"KV_absent": lambda: dns.btree.KV(E.absent, E.node_new()), "Member_absent": lambda: dns.btree.Member(E.absent)},
        "element": {"KV_absent": lambda: dns.btree.KV(E.absent, E.node_new()), "Member_absent": lambda: dns.btree.Member(E.absent)},
        "relative": {"True": lambda: True},
    }
    generic = {"present": lambda: E.present, "absent": lambda: E.absent, "0": lambda: 0, "77": lambda: 77,
               "slice": lambda: slice(0, 1), "True": lambda: True}
    if kind in ("rdataset", "rdsitems", "rdatasets"):
        generic.update(rdish)
        generic.update(setish)
        generic["pair"] = lambda: {rdish.get("rd_new", rdish["rd_old"])(): None}
    elif kind in ("nodes",):
        generic.update({"node_new": E.node_new, "map_absent": lambda: {E.absent: E.node_new()},
                        "pairs_absent": lambda: [(E.absent, E.node_new())]})
    elif kind in ("delegations",):
        generic.update({"list_absent": lambda: [E.absent], "set_present": lambda: {E.present}})
    elif kind in ("node",):
        generic.update({"IN": lambda: IN, "A": lambda: A, "TXT": lambda: TXT, "NS": lambda: NS, "SOA": lambda: SOA,
                        "NONE": lambda: NONE, "rds_new": E.rds_new, "rds_txt": E.rds_txt})
    else:  # txn, version, zone
        generic.update({"A": lambda: A, "NS": lambda: NS, "SOA": lambda: SOA, "NONE": lambda: NONE, "rd_new": lambda: E.rd_new,
                        "rds_new": E.rds_new, "node_new": E.node_new, "5": lambda: 5})
    P["*"] = generic
    P["value"] = generic
    # containers: what "key" / "value" / "other" mean depends on the container
    if kind == "rdatasets":
        idx = {"0": lambda: 0, "slice": lambda: slice(0, 1)}
        elems = {"rds_new": E.rds_new, "elem0": lambda: target[0]}
        generic.update(elems)
        P.update({"key": idx, "index": idx, "value": elems, "object": elems,
                  "iterable": {"list_rds_new": lambda: [E.rds_new()]}})
    elif kind == "rdsitems":
        P.update({"key": rdish, "value": {"None": lambda: None}, "default": {"None": lambda: None}})
    elif kind == "nodes":
        maps = {"map_absent": lambda: {E.absent: E.node_new()}, "pairs_absent": lambda: [(E.absent, E.node_new())],
                "empty_map": lambda: {}}
        P.update({"key": keyish, "value": {"node_new": E.node_new}, "default": {"node_new": E.node_new}, "other": maps})
        if isinstance(target, dns.btree.BTree):
            # the element objects are shared between a frozen tree and its copy-on-write clone
            P["element"] = dict(P["element"])
            P["element"]["elt_present"] = lambda: target.get_element(E.present)
    elif kind == "delegations":
        members = list(target)
        dk = {"absent": lambda: E.absent}
        if members:
            dk["member"] = lambda: members[0]
        sets = {"list_absent": lambda: [E.absent], "set_absent": lambda: {E.absent}, "empty_set": lambda: set()}
        if members:
            sets.update({"set_member": lambda: set(members[:1]), "set_mixed": lambda: set(members[:1]) | {E.absent}})
        generic.update(dk)
        generic.update(sets)
        P.update({"key": dk, "value": dk, "x": dk, "other": sets, "it": sets})
        if members:
            P["element"] = dict(P["element"])
            P["element"]["elt_present"] = lambda: target.get_element(members[0])
    elif kind == "version":
        dn = dict(keyish)
        if hasattr(target, "delegations") and len(target.delegations) > 0:
            d0 = list(target.delegations)[0]
            dn["deleg"] = lambda: d0
        P.update({"name": dn, "is_glue": {"False": lambda: False, "True": lambda: True}})
    return P


class _Same:
    """argument factory that needs the receiver: the CURRENT value of one of its attributes"""

    def __init__(self, attr):
        self.attr = attr

    def __call__(self, recv):
        return getattr(recv, self.attr)


def build(mks, recv):
    return [mk(recv) if isinstance(mk, _Same) else mk() for mk in mks]


def arg_candidates(fn, P, attr_names, name):
    """yield (labels, factory-tuple) for the callable fn"""
    if name == "__setattr__":
        for a in attr_names:
            for lab, mk in (("77", lambda: 77), ("empty-tuple", lambda: ()), ("None", lambda: None), ("same", _Same(a))):
                yield ("attr:" + a, lab), (lambda a=a: a, mk)
        return
    if name == "__delattr__":
        for a in attr_names:
            yield ("attr:" + a,), (lambda a=a: a,)
        return
    try:
        sig = inspect.signature(fn)
        params = list(sig.parameters.values())
    except (TypeError, ValueError):
        params = None
    combos = []
    if params is None or any(p.kind == p.VAR_POSITIONAL for p in params):
        g = P["*"]
        if params is not None and len(g) > 9:
            # *args API (transaction add/replace/delete): name, ttl, type, rdata, rdataset
            keep = ["present", "absent", "77", "A", "SOA", "rd_new", "rds_new"]
            g = {k: v for k, v in g.items() if k in keep}
        maxar = 3 if params is not None else 2
        for ar in range(0, maxar + 1):
            for labs in itertools.product(sorted(g), repeat=ar):
                combos.append((labs, tuple(g[x] for x in labs)))
    else:
        pos = [p for p in params if p.kind in (p.POSITIONAL_ONLY, p.POSITIONAL_OR_KEYWORD)]
        nreq = len([p for p in pos if p.default is p.empty])
        for ar in range(nreq, min(len(pos), 4) + 1):
            per = []
            for p in pos[:ar]:
                pool = P.get(p.name, P["*"])
                per.append(sorted(pool.items()))
            for choice in itertools.product(*per):
                combos.append((tuple(c[0] for c in choice), tuple(c[1] for c in choice)))
    for c in combos[:MAX_COMBOS]:
        yield c


def attr_names_of(obj):
    names = []
    for a in dir(obj):
        if a.startswith("_"):
            continue
        try:
            v = getattr(obj, a)
        except Exception:
            continue
        if not callable(v):
            names.append(a)
    return names


# ----------------------------------------------------------------------------- one object
def probe_object(ev, kind, label, obj, make_twin, proj, env, world, catalogue_probe=True):
    """append the events for one reachable object"""
    twin0 = make_twin()
    before = safe_digest(proj, obj)
    w0 = world()
    ev.append({"op": "obj", "kind": kind, "label": label, "cls": type(obj).__name__, "st": before, "world": w0})
    names = set()
    for o in (twin0, obj):
        for a in dir(o):
            if a.startswith("_"):
                continue
            try:
                if callable(getattr(o, a)):
                    names.add(a)
            except Exception:
                pass
    for d in DUNDERS:
        if hasattr(twin0, d) or hasattr(obj, d):
            names.add(d)
    names -= EXCLUDE.get(kind, set())
    skip_attr = isinstance(obj, dns.btree.BTree) or kind in ("txn", "zone") or isinstance(obj, (tuple, dict, list))
    if skip_attr:
        names -= {"__setattr__", "__delattr__"}
    attrs = attr_names_of(twin0)
    P = pools(env, kind, obj)
    available = sorted(n for n in names if hasattr(twin0, n))
    ncand = 0
    nwit = 0
    nnoop = 0
    seen_kind = WITNESSED.setdefault(kind, set())
    for name in sorted(names):
        fn = getattr(twin0, name, None)
        if fn is None:
            fn = getattr(obj, name, None)
        if fn is None:
            continue
        try:
            has_create = "create" in inspect.signature(fn).parameters
        except (TypeError, ValueError):
            has_create = False
        noops = []
        witnessed = False
        for labels, mks in arg_candidates(fn, P, attrs, name):
            ncand += 1
            tw = make_twin()
            tfn = getattr(tw, name, None)
            if tfn is None:
                continue
            tb = safe_digest(proj, tw)
            traised = False
            try:
                tfn(*build(mks, tw))
            except BaseException:  # noqa: BLE001
                traised = True
            if safe_digest(proj, tw) == tb:
                # nothing changed on the twin.  If the twin ACCEPTED the call (returned), this is
                # a mutator called with arguments that request no change; kept for the "raises"
                # clause only.  (create-style methods are reads unless create=True is passed.)
                if not traised and not (has_create and "True" not in labels):
                    noops.append((labels, mks))
                continue
            # a witnessed mutator: apply it to the real object
            nwit += 1
            witnessed = True
            try:
                ofn = getattr(obj, name)
                ofn(*build(mks, obj))
                res, exc = "ok", ""
            except BaseException as e:  # noqa: BLE001
                res, exc = "err", type(e).__name__
            ev.append({"op": "call", "kind": kind, "m": name, "args": "(" + ",".join(labels) + ")", "twin": True,
                       "res": res, "exc": exc, "after": safe_digest(proj, obj), "world": world()})
        if witnessed:
            seen_kind.add(name)
        if name in seen_kind:
            # the method is a mutator of this kind of object: its no-op variants must be refused too
            for labels, mks in noops[:MAX_NOOPS]:
                nnoop += 1
                try:
                    ofn = getattr(obj, name)
                    ofn(*build(mks, obj))
                    res, exc = "ok", ""
                except BaseException as e:  # noqa: BLE001
                    res, exc = "err", type(e).__name__
                ev.append({"op": "noop", "kind": kind, "m": name, "args": "(" + ",".join(labels) + ")", "cls": type(obj).__name__,
                           "res": res, "exc": exc, "after": safe_digest(proj, obj), "world": world()})
    ev.append({"op": "done", "kind": kind, "available": available, "ncand": ncand, "nwit": nwit, "nnoop": nnoop})


# ----------------------------------------------------------------------------- one snapshot
def build_zone(zclass, relativize, fresh):
    zone = base.ZCLASSES[zclass](ORIGIN, relativize=relativize)
    if fresh:
        return zone
    o = lambda n: base.owner(n, relativize)  # noqa: E731
    def nm(text):
        n = dns.name.from_text(text, None)
        return n if relativize else n.derelativize(ORIGIN)

    with zone.writer(True) as txn:
        txn.add(o("@"), 300, base.soa_rdata(1))
        txn.add(o("@"), 300, base.NS_RDATA)
        txn.add(o("a"), 300, base.a_rdata(1))
        txn.add(o("a"), 300, base.a_rdata(2))
        txn.add(o("a"), dns.rdataset.from_text("IN", "TXT", 300, '"t1"'))
        txn.add(o("b"), 300, base.a_rdata(1))
        txn.add(nm("sub"), 300, dns.rdata.from_text(IN, NS, "ns.sub.example."))
        txn.add(nm("ns.sub"), 300, base.a_rdata(3))
        txn.add(nm("g.d"), 300, base.a_rdata(4))
        txn.add(nm("h.d"), 300, base.a_rdata(5))
    zone.set_max_versions(None)
    # a second version that shares most nodes with the first (copy-on-write) and puts a
    # delegation ABOVE g.d / h.d, which it does not write (a B-tree zone re-flags them as glue)
    oo = lambda n: base.owner(n, not relativize)  # noqa: E731 - the OTHER spelling of an owner name
    with zone.writer() as txn:
        # (written through the other spelling of the owner names and through text)
        txn.replace(oo("@"), 300, base.soa_rdata(2))
        txn.add(oo("b"), 300, base.a_rdata(2))
        txn.add("a", 300, base.a_rdata(6))
        txn.add(nm("d"), 300, dns.rdata.from_text(IN, NS, "g.d.example."))
    # a third version that removes the delegation again (g.d / h.d re-flagged once more)
    with zone.writer() as txn:
        txn.replace(o("@"), 300, base.soa_rdata(3))
        txn.delete(nm("d"), NS)
    return zone


def probe(zclass, relativize, fresh, which, tid):
    """which = 'latest' | 'v<i>': the (i-th retained) version the read transaction is opened on"""
    trace = {"tid": tid, "zclass": zclass, "rel": relativize, "fresh": fresh, "which": which, "ev": []}
    ev = trace["ev"]
    zone = build_zone(zclass, relativize, fresh)
    if which.startswith("v") and len(zone._versions) > 1:
        txn = zone.reader(id=zone._versions[int(which[1:])].id)
    else:
        txn = zone.reader()
    other = zone.reader()  # a second reader, on the newest version: must not be affected either
    version = txn.version
    env = Env(zone, relativize, version)
    content = capture(version)
    trace["vkind"] = type(version).__name__
    trace["vid"] = int(version.id)

    def world():
        return safe_digest(lambda z: (p_zone(z), p_txn(txn), p_txn(other)), zone)

    # collect every reachable object BEFORE the first mutation attempt
    targets = []
    targets.append(("txn", "txn", txn, lambda: scratch_writer(zclass, relativize, content), p_txn))
    targets.append(("version", "txn.version", version,
                    lambda: scratch_writer(zclass, relativize, content).version, p_version))
    nodes_obj = version.nodes
    entries = list(nodes_obj.items())
    if isinstance(nodes_obj, dns.btree.BTree) and nodes_obj._immutable:
        def mk_nodes():
            return dns.btree.BTreeDict(original=nodes_obj)  # copy-on-write clone of the frozen tree
    elif isinstance(nodes_obj, dns.btree.BTree):
        def mk_nodes():
            tw = dns.btree.BTreeDict()
            for k, v in entries:
                tw[k] = v
            return tw
    else:
        def mk_nodes():
            return dict(entries)
    targets.append(("nodes", "txn.version.nodes", nodes_obj, mk_nodes, p_nodes))
    if hasattr(version, "delegations"):
        dobj = version.delegations
        members = list(dobj)
        targets.append(("delegations", "txn.version.delegations", dobj, lambda: twin_deleg(dobj, members), p_deleg))
    seen = set()
    nodes = []
    for name in list(version.keys()):
        for how, node in (("get_node", txn.get_node(name)), ("nodes[]", version.nodes[name])):
            if node is not None and id(node) not in seen:
                seen.add(id(node))
                nodes.append(("%s(%s)" % (how, name.to_text()), node))
    for label, node in nodes:
        targets.append(("node", label, node, lambda node=node: twin_node(zone, node), p_node))
        spec = [twin_rdataset(r) for r in node.rdatasets]
        targets.append(("rdatasets", label + ".rdatasets", node.rdatasets,
                        lambda spec=spec: [twin_rdataset(r) for r in spec], p_seq))
    rdss = []
    for label, node in nodes:
        for r in node.rdatasets:
            if id(r) not in seen:
                seen.add(id(r))
                rdss.append((label + "." + dns.rdatatype.to_text(r.rdtype), r))
    for name, r in txn.iterate_rdatasets():
        if id(r) not in seen:
            seen.add(id(r))
            rdss.append(("iterate(%s).%s" % (name.to_text(), dns.rdatatype.to_text(r.rdtype)), r))
    for name in list(version.keys()):
        for ty in (SOA, NS, A, TXT):
            r = txn.get(name, ty)
            if r is not None and id(r) not in seen:
                seen.add(id(r))
                rdss.append(("get(%s,%s)" % (name.to_text(), dns.rdatatype.to_text(ty)), r))
    for label, r in rdss:
        spec = twin_rdataset(r)
        targets.append(("rdataset", label, r, lambda spec=spec: twin_rdataset(spec), p_rdataset))
        ispec = [(k, r.items[k]) for k in r.items]
        targets.append(("rdsitems", label + ".items", r.items, lambda ispec=ispec: dict(ispec), p_items))
    # the zone's own (non-transactional) API, reached as txn.manager / version.zone
    targets.append(("zone", "txn.manager", txn.manager, lambda: twin_plainzone(relativize, content), p_zone_any))
    trace["objects"] = len(targets)
    WITNESSED.clear()
    for kind, label, obj, mk, proj in targets:
        try:
            probe_object(ev, kind, label, obj, mk, proj, env, world)
        except Exception as e:  # noqa: BLE001 - an event nobody matches
            ev.append({"op": "probe-crashed", "kind": kind, "label": label, "exc": repr(e)[:200]})
    ev.append({"op": "end", "world": world(), "rich": not fresh})
    return trace


def p_zone_any(z):
    return p_zone(z) if hasattr(z, "_versions") else p_plainzone(z)


def run_job(job):
    _, zclass, relativize, fresh, which, tid = job
    try:
        return probe(zclass, relativize, fresh, which, tid)
    except Exception as e:  # a driver failure is reported as an unmatched trace
        import traceback
        return {"tid": tid, "zclass": zclass, "rel": relativize, "fresh": fresh, "which": which,
                "ev": [{"op": "driver-error", "exc": repr(e)[:300], "tb": traceback.format_exc()[-600:]}]}
