"""X09 driver: the registries (dns.rdatatype, dns.rdataclass, dns.rcode, dns.opcode, dns.edns.OptionType
and the other dns.enum.IntEnum registries), the bit-field codecs (dns.opcode / dns.rcode from_flags and
to_flags, dns.flags text) and two stateful pieces (a dns.message.Message header, register_type).
Only drives and projects; Trace_Registries judges.

Integer results: the value (>= 0), or -1 the registry's documented "unknown" exception, -2 ValueError,
-3 another DNSException, -4 any other exception, -5 a result of the wrong type / out of 0..2^31-1.
Text results: the string, or "!<ExceptionClass>".  A 32-bit EDNS flags word travels as two 16-bit limbs."""
import dns.dnssectypes
import dns.edns
import dns.exception
import dns.flags
import dns.message
import dns.opcode
import dns.rcode
import dns.rdataclass
import dns.rdatatype
import dns.rdtypes.svcbbase
import dns.update
import dns.zonetypes

T, C = dns.rdatatype, dns.rdataclass


def _cls(c, unknown=ValueError):
    return (c, c.to_text, c.from_text, unknown)


# registry -> (enum class, to_text, from_text, documented exception for an unknown text)
REG = {
    "type": (T.RdataType, T.to_text, T.from_text, T.UnknownRdatatype),
    "class": (C.RdataClass, C.to_text, C.from_text, C.UnknownRdataclass),
    "rcode": (dns.rcode.Rcode, dns.rcode.to_text, dns.rcode.from_text, dns.rcode.UnknownRcode),
    "opcode": (dns.opcode.Opcode, dns.opcode.to_text, dns.opcode.from_text, dns.opcode.UnknownOpcode),
    "option": _cls(dns.edns.OptionType),
    "ede": _cls(dns.edns.EDECode),
    "svcparam": _cls(dns.rdtypes.svcbbase.ParamKey, dns.rdtypes.svcbbase.UnknownParamKey),
    "algorithm": _cls(dns.dnssectypes.Algorithm),
    "dsdigest": _cls(dns.dnssectypes.DSDigest),
    "nsec3hash": _cls(dns.dnssectypes.NSEC3Hash),
    "section": _cls(dns.message.MessageSection),
    "updsection": _cls(dns.update.UpdateSection),
    "zonemdscheme": _cls(dns.zonetypes.DigestScheme),
    "zonemdhash": _cls(dns.zonetypes.DigestHashAlgorithm),
}


def code_of(ex, unknown):
    if unknown is not ValueError and isinstance(ex, unknown):
        return -1
    if isinstance(ex, ValueError):
        return -2
    if isinstance(ex, dns.exception.DNSException):
        return -3
    return -4


def icall(f, arg, unknown=ValueError, want=None):
    """integer projection of f(arg)"""
    try:
        r = f(arg)
    except Exception as ex:  # the outcome is data, not a verdict
        return code_of(ex, unknown)
    if isinstance(r, bool) or not isinstance(r, int) or (want is not None and type(r) is not want) or not 0 <= r < 2**31:
        return -5
    return int(r)


def scall(f, *args):
    try:
        r = f(*args)
    except Exception as ex:
        return "!" + type(ex).__name__
    return r if type(r) is str else "!type " + type(r).__name__


def b(f, arg):
    try:
        r = f(arg)
    except Exception:
        return 2
    return 1 if r is True else 0 if r is False else 3


def ev_row(reg, lo, prefix):
    cls, to_text, from_text, unk = REG[reg]
    hi = min(lo + 256, cls._maximum() + 1)
    vals = list(range(lo, hi))
    names = [scall(to_text, v) for v in vals]
    e = {"op": "row", "reg": reg, "lo": lo, "name": names,
         "back": [icall(from_text, n, unk, cls) for n in names],
         "gen": [icall(from_text, prefix + str(v), unk, cls) for v in vals],
         "genl": [icall(from_text, prefix.lower() + str(v), unk, cls) for v in vals],
         "mk": [icall(cls.make, v, unk, cls) for v in vals],
         "mkn": [icall(cls.make, n, unk, cls) for n in names]}
    if reg == "type":
        e["meta"] = [b(T.is_metatype, cls.make(v)) for v in vals]
        e["single"] = [b(T.is_singleton, cls.make(v)) for v in vals]
    elif reg == "class":
        e["meta"] = [b(C.is_metaclass, cls.make(v)) for v in vals]
    if reg == "rcode":
        e["tsig"] = [scall(dns.rcode.to_text, v, True) for v in vals]
    return [e]


def one_text(reg, s):
    cls, to_text, from_text, unk = REG[reg]
    try:
        r = from_text(s)
    except Exception as ex:
        return ["err", 0, type(ex).__name__, code_of(ex, unk)]
    if type(r) is not cls or not 0 <= r < 2**31:
        return ["err", 0, "type " + type(r).__name__, -5]
    canon = scall(to_text, r)
    return ["ok", int(r), canon, icall(from_text, canon, unk, cls)]


def ev_text(reg, s):
    return [{"op": "text", "reg": reg, "text": s, "res": [one_text(reg, x) for x in (s, s.lower(), s.upper(), s.swapcase())]}]


def ev_oor(reg, v, prefix):
    cls, to_text, from_text, unk = REG[reg]
    e = {"op": "oor", "reg": reg, "v": v, "totext": scall(to_text, v), "make": icall(cls.make, v, unk, cls),
         "gen": icall(from_text, prefix + str(v), unk, cls)}
    if reg == "rcode":
        e["toflags"] = scall(lambda x: "%r" % (dns.rcode.to_flags(x),), v)
    return [e]


def ev_frow(lo):
    fs = list(range(lo, lo + 256))
    texts = [scall(dns.flags.to_text, f) for f in fs]
    ops = [icall(dns.opcode.from_flags, f, want=dns.opcode.Opcode) for f in fs]
    return [{"op": "frow", "lo": lo, "text": texts, "back": [icall(dns.flags.from_text, t) for t in texts], "opc": ops,
             "upd": [b(dns.opcode.is_update, f) for f in fs],
             "opf": [icall(dns.opcode.to_flags, dns.opcode.Opcode(o)) if o >= 0 else o for o in ops]}]


def ev_erow(lo, hi):
    fs = [hi * 65536 + x for x in range(lo, lo + 256)]
    texts = [scall(dns.flags.edns_to_text, f) for f in fs]
    return [{"op": "erow", "lo": lo, "hi": hi, "text": texts, "back": [icall(dns.flags.edns_from_text, t) for t in texts]}]


def limbs(x):
    return [x >> 16, x & 0xFFFF] if type(x) is int and 0 <= x < 2**32 else [-5, -5]


def ev_rcrow(lo, fn, vn, ln):
    tf, back, nin, nres = [], [], [], []
    for r in range(lo, lo + 256):
        try:
            f, ef = dns.rcode.to_flags(dns.rcode.Rcode(r))
            tf.append([f if type(f) is int and 0 <= f < 65536 else -5] + limbs(ef))
        except Exception as ex:
            tf.append([code_of(ex, ValueError), 0, 0])
            f, ef = r & 15, (r >> 4) << 24  # keep driving: the inputs are logged, the spec recomputes from them
        back.append(icall(lambda a: dns.rcode.from_flags(*a), (f, ef), want=dns.rcode.Rcode))
        fi, ei = f | fn, ef | (vn << 16) | ln
        nin.append([fi] + limbs(ei))
        nres.append(icall(lambda a: dns.rcode.from_flags(*a), (fi, ei), want=dns.rcode.Rcode))
    return [{"op": "rcrow", "lo": lo, "toflags": tf, "back": back, "nin": nin, "nres": nres}]


def ev_rcf(lo, hi):
    return [{"op": "rcf", "lo": lo, "hi": hi,
             "res": [icall(lambda f: dns.rcode.from_flags(f, hi << 16), f, want=dns.rcode.Rcode) for f in range(lo, lo + 256)]}]


def ev_rce(lo, f):
    return [{"op": "rce", "lo": lo, "flags": f, "elo": 0xABCD,
             "res": [icall(lambda h: dns.rcode.from_flags(f, (h << 16) | 0xABCD), h, want=dns.rcode.Rcode) for h in range(lo, lo + 256)]}]


def one_ftext(which, s):
    ft, tt = (dns.flags.from_text, dns.flags.to_text) if which == "flags" else (dns.flags.edns_from_text, dns.flags.edns_to_text)
    try:
        v = ft(s)
    except Exception as ex:
        return ["err", 0, type(ex).__name__, 0]
    if isinstance(v, bool) or not isinstance(v, int) or v < 0:
        return ["err", 0, "type " + type(v).__name__, 0]
    if v >= 2**31:
        return ["big", v.bit_length(), "", 0]
    canon = scall(tt, v)
    return ["ok", int(v), canon, icall(ft, canon)]


def ev_ftext(which, toks):
    return [{"op": "ftext", "which": which, "toks": toks,
             "res": [one_ftext(which, s) for s in (" ".join(toks), "  ".join(toks), " " + " ".join(toks) + " ")]}]
