"""C17 driver (concurrent part): run a small multi-threaded program against one real
resolver cache under the deterministic scheduler (vlib/sched.py), for a base schedule and
every schedule obtained by a bounded number of preemptions; record the history (call /
return events in the order the scheduler produced them) and the final structure.
Only drives and projects; Trace_CacheLin decides linearizability."""
import json

import dns.resolver
from drivers import c17_cache
from vlib import sched


def trace_codes():
    fs = []
    for cls, names in ((dns.resolver.LRUCache, ["get", "put", "flush", "set_max_size", "get_hits_for_key"]),
                       (dns.resolver.Cache, ["get", "put", "flush", "_maybe_clean"]),
                       (dns.resolver.CacheBase, ["hits", "misses", "reset_statistics", "get_statistics_snapshot"]),
                       (dns.resolver.LRUCacheNode, ["link_after", "unlink", "__init__"]),
                       (dns.resolver.CacheStatistics, ["reset", "clone"])):
        for n in names:
            f = getattr(cls, n, None)
            if f is not None and hasattr(f, "__code__"):
                fs.append(f.__code__)
    return set(fs)


def do_call(cache, kind, clock, c):
    op = c["op"]
    if op == "get":
        got = cache.get(c17_cache.key_of(c["k"]))
        return ["none"] if got is None else ["val", got.vid]
    if op == "put":
        cache.put(c17_cache.key_of(c["k"]), c17_cache.StubAnswer(c["v"], float(c["exp"])))
        return ["-"]
    if op == "flush":
        cache.flush(c17_cache.key_of(c["k"]))
        return ["-"]
    if op == "flushall":
        cache.flush()
        return ["-"]
    if op == "setmax":
        cache.set_max_size(c["n"])
        return ["-"]
    if op == "reset":
        cache.reset_statistics()
        return ["-"]
    if op == "hits":
        return ["int", cache.hits()]
    if op == "misses":
        return ["int", cache.misses()]
    if op == "hitsfor":
        return ["int", cache.get_hits_for_key(c17_cache.key_of(c["k"]))]
    raise ValueError(op)


def applicable(kind, c):
    return kind == "lru" or c["op"] not in ("setmax", "hitsfor")


def run_once(program, policy_desc, line_level, opcode_level=False):
    """One execution.  policy_desc = ("preempt", priority, {step: tid}) | ("random", seed)."""
    kind = program["kind"]
    clock = c17_cache.VClock()
    saved_time = dns.resolver.time
    dns.resolver.time = clock
    try:
        cache = dns.resolver.LRUCache(program["max"]) if kind == "lru" else dns.resolver.Cache(cleaning_interval=2.0)
        threads = sorted(program["prog"])
        ev = []
        # sequential setup by the main thread ("t0")
        for c in program["setup"]:
            if c["op"] == "tick":
                clock.now += c["d"]
                ev.append({"op": "tick", "d": c["d"]})
                continue
            if not applicable(kind, c):
                continue
            ev.append({"op": "call", "th": "t0", "call": c})
            ev.append({"op": "ret", "th": "t0", "res": do_call(cache, kind, clock, c)})
        if policy_desc[0] == "preempt":
            policy = sched.PreemptPolicy(policy_desc[1], {int(a): b for a, b in policy_desc[2].items()})
        else:
            policy = sched.RandomPolicy(policy_desc[1], 0.3)

        def observer(tid, k, obj, info):
            if k == "call":
                ev.append({"op": "call", "th": info["th"], "call": info["call"]})
            elif k == "ret":
                ev.append({"op": "ret", "th": info["th"], "res": info["res"]})
            elif k in ("crash", "deadlock", "budget"):
                ev.append({"op": k, "th": "t%d" % tid, "exc": str(info.get("exc", ""))[:80]})

        s = sched.Scheduler(policy, max_steps=20000 if opcode_level else 4000,
                            trace_codes=trace_codes() if (line_level or opcode_level) else (), observer=observer,
                            opcode_level=opcode_level)
        cache.lock = s.shim.Lock()

        def body(th):
            for c in program["prog"][th]:
                if not applicable(kind, c):
                    continue
                if c["op"] == "tick":  # one atomic event: no yield point between the two statements
                    clock.now += c["d"]
                    ev.append({"op": "tick", "d": c["d"]})
                    continue
                s.emit("call", th=th, call=c)
                try:
                    r = do_call(cache, kind, clock, c)
                except sched.SchedAbort:
                    raise
                except Exception as ex:  # noqa: BLE001 - an escaping exception is a result nobody matches
                    r = ["exc", type(ex).__name__]
                s.emit("ret", th=th, res=r)

        for i, th in enumerate(threads, start=1):
            s.spawn(i, body, th)
        res = s.run()
        fin = {"op": "final"}
        try:
            fin.update(c17_cache.project(cache, kind, clock))
        except Exception as ex:  # a corrupted ring may not be walkable
            fin.update({"hits": -1, "misses": -1, "ring": [], "back": ["PROJECTION-FAILED:" + type(ex).__name__], "keys": [], "live": []})
        ev.append(fin)
        return ev, res
    finally:
        dns.resolver.time = saved_time


def run_job(job):
    """job = (program, tid, k (preemption bound), line_level, nrandom, seed).  Returns the list of
    DISTINCT traces over the base schedule, every schedule with <= k deviations, and random ones."""
    program, tid, k, line_level, nrandom, seed = job[:6]
    opcode_level = bool(job[6]) if len(job) > 6 else False
    threads = sorted(program["prog"])
    out, seen = [], set()
    nruns = 0

    def add(ev, desc):
        key = json.dumps(ev, sort_keys=True)
        if key not in seen:
            seen.add(key)
            out.append({"tid": "%s.%d" % (tid, len(out)), "kind": program["kind"], "max": program["max"],
                        "threads": ["t0"] + threads, "ev": ev, "sched": desc})

    try:
        prios = [list(range(1, len(threads) + 1)), list(range(len(threads), 0, -1))]
        for prio in prios:
            frontier = [({}, -1)]
            for depth in range(k + 1):
                nxt = []
                for devs, last in frontier:
                    ev, res = run_once(program, ("preempt", prio, devs), line_level, opcode_level)
                    nruns += 1
                    add(ev, {"prio": prio, "devs": {str(a): b for a, b in devs.items()}, "line": line_level, "opcode": opcode_level})
                    if depth < k:
                        for (i, t) in sched.deviations_of(res, after=last):
                            d2 = dict(devs)
                            d2[i] = t
                            nxt.append((d2, i))
                frontier = nxt
        for r in range(nrandom):
            ev, res = run_once(program, ("random", seed * 1000 + r), line_level, opcode_level)
            nruns += 1
            add(ev, {"random": seed * 1000 + r, "line": line_level, "opcode": opcode_level})
    except Exception as ex:  # driver failure -> an event nobody matches
        out.append({"tid": "%s.err" % tid, "kind": program["kind"], "max": program["max"], "threads": ["t0"] + threads,
                    "ev": [{"op": "driver-error", "exc": repr(ex)[:200]}], "sched": {}})
    return out, nruns
