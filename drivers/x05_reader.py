"""X05 driver: turns abstract zone-file lines (Gen_ZoneReader) into files and loads EVERY
PREFIX with the real reader; records per line the outcome and a projection of what was loaded.
Drives and projects only - no verdicts.  stdlib + dns only."""
import io
import os
import re
import shutil

from vlib.core import ROOT, repo_on_path

repo_on_path()
import dns.exception  # noqa: E402
import dns.name  # noqa: E402
import dns.rdataclass  # noqa: E402
import dns.rdatatype  # noqa: E402
import dns.tokenizer  # noqa: E402
import dns.versioned  # noqa: E402
import dns.zone  # noqa: E402
import dns.zonefile  # noqa: E402

SCRATCH = os.path.join(ROOT, ".work", "x05files")


# ------------------------------------------------------------------ printer
def ref(r):
    return "@" if r[0] == "at" else r[1]


def tpl(parts):
    out = []
    for p in parts:
        if p["k"] == "s":
            out.append(p["t"])
        elif (p["o"], p["w"], p["b"]) == (0, 0, "d"):
            out.append("$")
        elif p["b"] == "d" and p["w"] == 0:
            out.append("${%d}" % p["o"])
        elif p["b"] == "d":
            out.append("${%d,%d}" % (p["o"], p["w"]))
        else:
            out.append("${%d,%d,%s}" % (p["o"], p["w"], p["b"]))
    return "".join(out)


def ttl_cls(l):
    t = [] if l["ttl"] < 0 else [str(l["ttl"])]
    c = [] if l["cls"] == "none" else [l["cls"]]
    return t + c if l["ord"] == "tc" else c + t


def line_text(l, incpath):
    k = l["k"]
    if k == "origin":
        return "$ORIGIN " + ref(l["name"])
    if k == "ttl":
        return "$TTL %d" % l["v"]
    if k == "inc":
        return "$INCLUDE " + incpath + ("" if l["org"][0] == "none" else " " + ref(l["org"]))
    if k == "gen":
        rng = "%d-%d" % (l["lo"], l["hi"]) + ("" if l["step"] == 1 else "/%d" % l["step"])
        return " ".join(["$GENERATE", rng, tpl(l["lhs"])] + ttl_cls(l) + [l["y"], tpl(l["rhs"])])
    o = l["owner"][0]
    first = [] if o == "omit" else [""] if o == "blank" else [ref(l["owner"])]
    y = l["y"]
    if y == "MX":
        rd = "%d %s" % (l["i"], ref(l["tgt"]))
    elif y == "TXT":
        rd = '"%s"' % l["s"]
    elif y == "SOA":
        rd = "%s hostmaster 1 2 3 4 %d" % (ref(l["tgt"]), l["i"])
    else:
        rd = ref(l["tgt"])
    return " ".join(first + ttl_cls(l) + ([y] if l["yg"] else []) + [rd])


def build_files(lines, k, d):
    """Text of the main file and the included files {name: text} for the first k lines."""
    bufs = [("main", [])]
    done = {}
    for i, l in enumerate(lines[:k], start=1):
        if l["k"] == "end":
            if len(bufs) > 1:
                name, buf = bufs.pop()
                done[name] = buf
            continue
        name = "f%d" % i
        bufs[-1][1].append(line_text(l, os.path.join(d, name)))
        if l["k"] == "inc":
            bufs.append((name, []))
    for name, buf in bufs:
        done[name] = buf
    return {n: "".join(x + "\n" for x in b) for n, b in done.items()}


# ------------------------------------------------------------------ projection
def absname(n, origin):
    return n.derelativize(origin).to_text() if origin is not None else n.to_text()


def proj(owner, ttl, rdclass, rd, origin):
    y = dns.rdatatype.to_text(rd.rdtype)
    i, s = 0, ""
    if y == "MX":
        i, s = rd.preference, absname(rd.exchange, origin)
    elif y == "TXT":
        s = b"".join(rd.strings).decode("latin-1")
    elif y == "SOA":
        i, s = rd.minimum, absname(rd.mname, origin)
    elif y in ("NS", "CNAME", "PTR", "DNAME"):
        s = absname(rd.target, origin)
    elif y in ("A", "AAAA"):
        s = rd.address
    else:
        s = rd.to_text()
    return {"o": absname(owner, origin), "t": int(ttl), "c": dns.rdataclass.to_text(rdclass), "y": y, "i": int(i), "s": s}


class RecTxn(dns.zonefile.RRsetsReaderTransaction):
    def add(self, *args):
        self.manager.log.append(args)
        return super().add(*args)


class RecManager(dns.zonefile.RRSetsReaderManager):
    def __init__(self, *a, **kw):
        super().__init__(*a, **kw)
        self.log = []

    def writer(self, replacement=False):
        return RecTxn(self, True, False)


def load(cfg, drv, files, d):
    """One load of the current file set; returns the projected records."""
    text = files["main"]
    org = dns.name.from_text(cfg["zorigin"])
    rdclass = dns.rdataclass.from_text(cfg["zcls"])
    how = drv["how"]
    kw = {}
    if cfg["inc"] != "dflt":
        kw["allow_include"] = cfg["inc"] == "yes"
    if cfg["dirs"] != ["*"]:
        kw["allow_directives"] = list(cfg["dirs"])
    if how == "rrsets":
        rrsets = dns.zonefile.read_rrsets(
            text, name=cfg["fname"] or None, ttl=None if cfg["fttl"] < 0 else cfg["fttl"], rdclass=cfg["fcls"] or None,
            default_rdclass=cfg["zcls"], rdtype=cfg["ftype"] or None, default_ttl=None if cfg["dttl"] < 0 else cfg["dttl"],
            origin=org, relativize=drv["rel"])
        return [proj(rs.name, rs.ttl, rs.rdclass, rd, org) for rs in rrsets for rd in rs]
    if how == "reader":
        man = RecManager(org, drv["rel"], rdclass)
        with man.writer(True) as txn:
            tok = dns.tokenizer.Tokenizer(text, "main")
            dns.zonefile.Reader(tok, rdclass, txn, **kw).read()
        return [proj(n, t, rd.rdclass, rd, org) for (n, t, rd) in man.log]
    factory = dns.versioned.Zone if drv["factory"] == "versioned" else dns.zone.Zone
    common = dict(origin=org, rdclass=rdclass, relativize=drv["rel"], zone_factory=factory, check_origin=False, **kw)
    if how == "text":
        z = dns.zone.from_text(text, filename="main", **common)
    elif how == "file":
        z = dns.zone.from_file(io.StringIO(text), filename="main", **common)
    else:
        z = dns.zone.from_file(os.path.join(d, "main"), **common)
    out = []
    for n, rds in z.iterate_rdatasets():
        out += [proj(n, rds.ttl, rds.rdclass, rd, z.origin) for rd in rds]
    return out


KEEP = {"rr": ("owner", "ttl", "cls", "ord", "y", "yg", "i", "s", "tgt"), "origin": ("name",), "ttl": ("v",), "inc": ("org",), "end": (),
        "gen": ("ttl", "cls", "ord", "y", "lo", "hi", "step", "lhs", "labs", "rhs", "rk")}


def slim(l):
    """Only the fields the model reads for this kind of line (smaller logs)."""
    return dict({"k": l["k"]}, **{f: l[f] for f in KEEP[l["k"]]})


WHERE = re.compile(r"^(.*?):(\d+): ")


def replay(job):
    lines, cfg, drv = job["lines"], job["cfg"], job["drv"]
    d = os.path.join(SCRATCH, "%d_%s" % (os.getpid(), job["tid"].replace("/", "_")))
    os.makedirs(d, exist_ok=True)
    ev = []
    try:
        for k in range(1, len(lines) + 1):
            files = build_files(lines, k, d)
            for name, text in files.items():
                if name != "main" or drv["how"] == "path":
                    with open(os.path.join(d, name), "w") as f:
                        f.write(text)
            res = {"st": "ok", "mode": "bag" if drv["how"] == "reader" else "set", "recs": [], "exc": "", "syn": False,
                   "file": "", "line": 0}
            try:
                res["recs"] = sorted(load(cfg, drv, files, d), key=lambda r: (r["o"], r["y"], r["i"], r["s"], r["t"]))
            except Exception as e:  # the reader's refusal is an observation, not a verdict
                m = WHERE.match(str(e))
                fn = os.path.basename(m.group(1)) if m else "?"
                res.update(st="err", exc=type(e).__name__, syn=type(e).__name__ == "SyntaxError",
                           file="main" if fn in ("<input>", "<string>", "main") else fn, line=int(m.group(2)) if m else 0)
            ev.append(dict(slim(lines[k - 1]), res=res))
    finally:
        shutil.rmtree(d, ignore_errors=True)
    return {"tid": job["tid"], "cfg": cfg, "drv": drv, "ev": ev}


def run_job(job):
    try:
        return replay(job)
    except Exception as e:  # a driver crash is an event nobody matches
        return {"tid": job["tid"], "cfg": job["cfg"], "drv": job["drv"], "ev": [{"k": "driver-error", "what": repr(e)[:200]}]}
