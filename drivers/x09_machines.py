"""X09 driver, stateful part: a dns.message.Message header under set_opcode / set_rcode / flag raising and
clearing / want_dnssec / use_edns, and the dynamic type registry under dns.rdatatype.register_type.
Only drives and projects (one event per call with the observable state afterwards)."""
import dns.flags
import dns.message
import dns.opcode
import dns.rcode
import dns.rdatatype

from drivers import x09_registries as R


def observe(m):
    ef = m.ednsflags
    flags = m.flags
    return {"flags": int(flags) if isinstance(flags, int) and 0 <= flags < 2**31 else -5,
            "e": R.limbs(int(ef)) if isinstance(ef, int) else [-5, -5],
            "opt": bool(m.opt is not None and len(m.opt) > 0),
            "edns": R.icall(lambda x: x.edns + 1, m) - 1,
            "opcode": R.icall(lambda x: x.opcode(), m, want=dns.opcode.Opcode),
            "rcode": R.icall(lambda x: x.rcode(), m, want=dns.rcode.Rcode),
            "text": R.scall(dns.flags.to_text, flags),
            "etext": R.scall(dns.flags.edns_to_text, ef)}


def h_call(m, c):
    k = c[0]
    if k == "opcode":
        m.set_opcode(dns.opcode.Opcode(c[1]))
    elif k == "rcode":
        m.set_rcode(dns.rcode.Rcode(c[1]))
    elif k == "raise":
        m.flags |= dns.flags.Flag[c[1]]
    elif k == "clear":
        m.flags &= ~dns.flags.Flag[c[1]]
    elif k == "dnssec":
        m.want_dnssec(bool(c[1]))
    elif k == "edns":
        m.use_edns(c[1], (c[2] << 24) | c[3])
    elif k == "noedns":
        m.use_edns(False)
    else:
        raise ValueError(k)


def ev_hb(f0, calls):
    m = dns.message.Message(id=0)
    m.flags = f0
    evs = [dict(observe(m), op="hinit", f0=f0)]
    for c in calls:
        try:
            h_call(m, c)
            out = "ok"
        except Exception as ex:
            out = "!" + type(ex).__name__
        e = dict(observe(m), op=c[0], out=out)
        if len(c) > 1:
            e["a"] = c[1]
        if c[0] == "edns":
            e["xr"], e["lo"] = c[2], c[3]
        evs.append(e)
    return evs


REG_STATE = ("_registered_by_text", "_registered_by_value", "_singletons")


def ev_rb(calls):
    """register_type calls on a registry restored afterwards (the state is process-global)"""
    T = dns.rdatatype
    saved = {n: type(getattr(T, n))(getattr(T, n)) for n in REG_STATE}
    values = sorted({c[1] for c in calls} | {65280, 65281, 65282, 1})
    texts = sorted({x for c in calls for x in (c[2], c[2].upper(), c[2].lower())} | {"A", "a"} | {"TYPE%d" % v for v in values})
    evs = []
    try:
        for c in calls:
            try:
                T.register_type(T.RdataType.make(c[1]), c[2], bool(c[3]))
                out = "ok"
            except Exception as ex:
                out = "!" + type(ex).__name__
            evs.append({"op": "register", "v": c[1], "text": c[2], "single": bool(c[3]), "out": out,
                        "qv": values, "qt": texts,
                        "totext": [R.scall(T.to_text, v) for v in values],
                        "name": [R.scall(lambda v: T.RdataType.make(v).name, v) for v in values],
                        "fromtext": [R.icall(T.from_text, s, T.UnknownRdatatype, T.RdataType) for s in texts],
                        "isingle": [R.b(T.is_singleton, T.RdataType.make(v)) for v in values]})
    finally:
        for n in REG_STATE:
            cur = getattr(T, n)
            cur.clear()
            cur.update(saved[n])
    return evs


def events(item):
    k = item[0]
    if k == "row":
        return R.ev_row(item[1], item[2], item[3])
    if k == "text":
        return R.ev_text(item[1], item[2])
    if k == "oor":
        return R.ev_oor(item[1], item[2], item[3])
    if k == "frow":
        return R.ev_frow(item[1])
    if k == "erow":
        return R.ev_erow(item[1], item[2])
    if k == "rcrow":
        return R.ev_rcrow(*item[1:5])
    if k == "rcf":
        return R.ev_rcf(item[1], item[2])
    if k == "rce":
        return R.ev_rce(item[1], item[2])
    if k == "ftext":
        return R.ev_ftext(item[1], item[2])
    if k == "hb":
        return ev_hb(item[1], item[2:])
    if k == "rb":
        return ev_rb(item[1:])
    raise ValueError(k)


STATEFUL = ("hb", "rb")


def run_job(job):
    """job = (tid, [items]) -> one trace; stateless items share a trace (independent events), a
    behaviour of a state machine is a trace of its own"""
    tid, items = job
    ev = []
    for it in items:
        try:
            ev += events(it)
        except BaseException as ex:  # a driver crash is an event nobody matches
            ev.append({"op": "driver-crash", "item": repr(it)[:200], "exc": type(ex).__name__, "msg": str(ex)[:200]})
    return {"tid": tid, "kind": items[0][0] if items else "?", "ev": ev}
