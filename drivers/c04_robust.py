"""C04 driver: feeds one (faulted) input to every parser entry point named in the property,
under a watchdog, and logs per call the OUTCOME CLASS as a list of family tags computed
with isinstance, plus the outcomes of rendering every returned value to text and wire.
It only drives and projects; verdicts live in specs/Trace_Robustness.tla.

A job is a dict {"tid", "kind", ...input fields...}; kinds:
  msg    wire message        {"w": [octets]}
  namew  wire name           {"w": [octets], "cur": offset}
  rdw    wire rdata          {"w": [octets], "cur", "rdlen", "cls", "type"}
  optw   wire EDNS option    {"w": [octets], "cur", "olen", "code"}
  namet  text name           {"s": text}
  rdt    text rdata          {"s": text, "cls", "type"}
  ttl    text TTL            {"s": text}
  zone   zone file           {"s": text}
  msgt   text message        {"s": text}
Everything else in the job (the specification's descriptor of the input) is copied to the
trace unchanged.  Text travels as "s" (str); octets as lists of ints."""
import itertools
import signal
import sys

from vlib import core

core.repo_on_path()
import dns.edns  # noqa: E402
import dns.exception  # noqa: E402
import dns.message  # noqa: E402
import dns.name  # noqa: E402
import dns.rdata  # noqa: E402
import dns.rdataclass  # noqa: E402
import dns.rdatatype  # noqa: E402
import dns.tsig  # noqa: E402
import dns.ttl  # noqa: E402
import dns.zone  # noqa: E402
import dns.zonefile  # noqa: E402

CPU_BUDGET = 1.0  # seconds of CPU time per call before the deterministic re-run
LINE_BUDGET = 2_000_000  # traced line events per call: more is a "hang"
FILENAME = "zf"  # filename handed to the zone reader ("file and line" clause)


class _Hang(BaseException):
    """Raised by the watchdog; BaseException so that no `except Exception` of the library
    (ExceptionWrapper, continue_on_error) can swallow it."""


class _FixedTime:
    """dns.message.time replacement: TSIG validation must not depend on the wall clock."""

    @staticmethod
    def time():
        return 1593835530.0  # = time signed of the TSIG specimen + 10 s


dns.message.time = _FixedTime

_TSIG_ERRS = (dns.tsig.BadTime, dns.tsig.BadSignature, dns.tsig.BadKey, dns.tsig.BadAlgorithm, dns.tsig.PeerError)
_FAMILIES = [
    ("DNSException", lambda e: isinstance(e, dns.exception.DNSException)),
    ("FormError", lambda e: isinstance(e, dns.exception.FormError)),
    ("SyntaxError", lambda e: isinstance(e, dns.exception.SyntaxError)),
    ("Truncated", lambda e: isinstance(e, dns.message.Truncated)),
    ("UnknownTSIGKey", lambda e: isinstance(e, dns.message.UnknownTSIGKey)),
    ("TsigError", lambda e: isinstance(e, _TSIG_ERRS)),
    ("NameLength", lambda e: isinstance(e, (dns.name.NameTooLong, dns.name.LabelTooLong))),
    ("IDNA", lambda e: isinstance(e, (dns.name.IDNAException, dns.name.NoIDNA2008))),
    # the documented zone-semantic errors: raised by the zone / transaction / node code
    # itself.  UnicodeError (a ValueError subclass) is NOT one, nor is a ValueError that
    # escapes from a conversion (int(), b64decode...) somewhere in the parsers.
    ("ValueError", lambda e: isinstance(e, ValueError) and not isinstance(e, UnicodeError) and _semantic(e)),
    ("KeyError", lambda e: isinstance(e, KeyError) and _semantic(e)),
]
_SEMANTIC_FILES = ("transaction.py", "zone.py", "node.py", "versioned.py", "btreezone.py", "rdataset.py", "rrset.py")


def _semantic(e):
    """The exception was raised by a statement of the zone-content modules (innermost frame)."""
    tb = e.__traceback__
    if tb is None:
        return False
    while tb.tb_next is not None:
        tb = tb.tb_next
    fn = tb.tb_frame.f_code.co_filename.replace("\\", "/")
    return "/dns/" in fn and fn.rsplit("/", 1)[1] in _SEMANTIC_FILES


def tags_of(e):
    t = [name for name, pred in _FAMILIES if pred(e)]
    return t or ["other"]


def cls_of(e):
    c = type(e)
    return c.__name__ if c.__module__ in ("builtins",) else "%s.%s" % (c.__module__, c.__name__)


_FIRED = [False]


def _on_alarm(signum, frame):
    _FIRED[0] = True
    raise _Hang()


def _count_run(fn):
    """Deterministic re-run of a call that exceeded the CPU budget: count traced line
    events; more than LINE_BUDGET is a hang.  The verdict is the counter, not the exception
    that comes out: the library converts whatever is raised inside rdata parsing
    (ExceptionWrapper catches BaseException too)."""
    n = [0]

    def tracer(frame, event, arg):
        if event == "line":
            n[0] += 1
            if n[0] > LINE_BUDGET:
                raise _Hang()
        return tracer

    sys.settrace(tracer)
    try:
        r = ("val", fn())
    except BaseException as e:  # noqa: B902
        r = ("exc", e)
    finally:
        sys.settrace(None)
    return ("hang", None) if n[0] > LINE_BUDGET else r


def guarded(fn):
    """Run fn() under the watchdog -> ("val", v) | ("exc", e) | ("hang", None)."""
    _FIRED[0] = False
    signal.signal(signal.SIGVTALRM, _on_alarm)
    signal.setitimer(signal.ITIMER_VIRTUAL, CPU_BUDGET)
    try:
        try:
            r = ("val", fn())
        finally:
            signal.setitimer(signal.ITIMER_VIRTUAL, 0)
    except BaseException as e:  # noqa: B902
        r = ("exc", e)
    if not _FIRED[0]:
        return r
    return _count_run(fn)


def outcome(r):
    """(tags, class name) of a guarded() result."""
    how, v = r
    if how == "val":
        return ["ok"], "-"
    if how == "hang":
        return ["hang"], "hang"
    return tags_of(v), cls_of(v)


def render(v, totext, towire):
    """Outcomes of rendering a returned value: (text tags, text class, wire tags, wire class)."""
    rt, rtc = outcome(guarded(lambda: totext(v))) if totext else (["none"], "-")
    rw, rwc = outcome(guarded(lambda: towire(v))) if towire else (["none"], "-")
    return {"rt": rt, "rtc": rtc, "rw": rw, "rwc": rwc}


NORENDER = {"rt": ["none"], "rtc": "-", "rw": ["none"], "rwc": "-"}


def call(op, opts, fn, totext=None, towire=None, extra=None):
    """One event: run fn under the watchdog, render the value if one is returned.
    extra(how, v) -> additional projected fields (v = value or exception or None)."""
    r = guarded(fn)
    out, cls = outcome(r)
    ev = {"op": op, "opts": opts, "out": out, "cls": cls}
    ev.update(render(r[1], totext, towire) if r[0] == "val" else NORENDER)
    if extra:
        ev.update(extra(r[0], r[1]))
    return ev


# ---------------------------------------------------------------------------- entry points
EXAMPLE = dns.name.from_text("example.")
KEYRING = {dns.name.from_text("key."): b"0123456789abcdef"}
MSG_FLAGS = ("ignore_trailing", "one_rr_per_rrset", "question_only", "continue_on_error", "raise_on_truncation")
# option vectors <<it, one, qo, coe, rot, keyring>>: all 32 combinations without a keyring,
# and four with a keyring that maps the key name to a raw secret
MSG_OPTS = [list(b) + [0] for b in itertools.product((0, 1), repeat=5)] + \
           [[0, 0, 0, 0, 0, 1], [0, 0, 0, 1, 0, 1], [1, 1, 0, 0, 1, 1], [0, 0, 0, 1, 1, 1]]
MSG_OPTS_LIGHT = [[0, 0, 0, 0, 0, 0], [1, 0, 0, 0, 0, 0], [0, 0, 1, 0, 0, 0], [0, 0, 0, 1, 0, 0], [0, 0, 0, 0, 1, 0],
                  [0, 1, 0, 1, 1, 0], [1, 0, 0, 1, 0, 1], [0, 0, 0, 0, 0, 1]]
ZONE_OPTS = [[rel, org, chk, ad] for rel in (0, 1) for org in (0, 1) for chk in (0, 1) for ad in (0, 1, 2)]
ZONE_OPTS_LIGHT = [[1, 1, 0, 1], [0, 1, 0, 1], [1, 0, 0, 1], [1, 1, 1, 1], [1, 1, 0, 0], [0, 0, 1, 2]]
ALLOW_DIRECTIVES = {0: False, 1: True, 2: ["$ORIGIN", "$GENERATE"]}


def _nrr(section):
    return sum(max(1, len(rrs)) for rrs in section)


def _msg_extra(how, v):
    if how != "val":
        return {"errs": [], "n": [0, 0, 0, 0], "tc": 0}
    errs = [{"off": me.offset, "tags": tags_of(me.exception), "cls": cls_of(me.exception)}
            for me in getattr(v, "errors", [])]
    n = [_nrr(v.sections[0]), _nrr(v.sections[1]), _nrr(v.sections[2]),
         _nrr(v.sections[3]) + (1 if v.opt else 0) + (1 if v.tsig else 0)]
    return {"errs": errs, "n": n, "tc": 1 if v.flags & dns.flags.TC else 0}


def ev_msg(job, light):
    w = bytes(job["w"])
    evs = []
    for o in (MSG_OPTS_LIGHT if light else MSG_OPTS):
        kw = {k: bool(o[i]) for i, k in enumerate(MSG_FLAGS)}
        if o[5]:
            kw["keyring"] = KEYRING
        evs.append(call("msg", o, lambda: dns.message.from_wire(w, **kw),
                        lambda m: m.to_text(), lambda m: m.to_wire(), _msg_extra))
    return evs


def ev_namew(job, light):
    w = bytes(job["w"])
    cur = job["cur"]
    return [call("namew", [0], lambda: dns.name.from_wire(w, cur),
                 lambda r: r[0].to_text(), lambda r: r[0].to_wire())]


def ev_rdw(job, light):
    w = bytes(job["w"])
    evs = []
    for org in (0, 1):
        origin = EXAMPLE if org else None
        evs.append(call("rdw", [org],
                        lambda: dns.rdata.from_wire(job["cls"], job["type"], w, job["cur"], job["rdlen"], origin),
                        lambda rd: rd.to_text(), lambda rd: rd.to_wire(origin=origin)))
    return evs


def ev_optw(job, light):
    w = bytes(job["w"])
    return [call("optw", [0], lambda: dns.edns.option_from_wire(job["code"], w, job["cur"], job["olen"]),
                 lambda o: o.to_text(), lambda o: o.to_wire())]


def ev_namet(job, light):
    s = job["s"]
    evs = []
    for org in (0, 1, 2):
        origin = (None, dns.name.root, EXAMPLE)[org]
        evs.append(call("namet", [org], lambda: dns.name.from_text(s, origin),
                        lambda n: n.to_text(), lambda n: n.to_wire(origin=origin)))
    try:
        b = s.encode("ascii")
    except UnicodeError:
        b = None
    if b is not None:
        evs.append(call("namet", [3], lambda: dns.name.from_text(b), lambda n: n.to_text(), lambda n: n.to_wire()))
    return evs


def ev_rdt(job, light):
    s = job["s"]
    evs = []
    for org, rel in ((0, 1), (1, 1), (1, 0)):
        origin = EXAMPLE if org else None
        evs.append(call("rdt", [org, rel],
                        lambda: dns.rdata.from_text(job["cls"], job["type"], s, origin=origin, relativize=bool(rel)),
                        lambda rd: rd.to_text(), lambda rd: rd.to_wire(origin=origin)))
    return evs


def ev_ttl(job, light):
    s = job["s"]
    return [call("ttl", [0], lambda: dns.ttl.from_text(s), lambda v: str(int(v)), None)]


def _where_extra(filename):
    """file:line projection of a zone-reader syntax error: fp = the message starts with
    "<filename>:<n>: ", ln = n (0 when there is no such prefix or no exception)."""
    import re
    where = re.compile(r"^%s:(\d+): " % re.escape(filename))

    def extra(how, v):
        if how != "exc":
            return {"fp": 0, "ln": 0}
        m = where.match(str(v))
        return {"fp": 1, "ln": min(int(m.group(1)), 1000000)} if m else {"fp": 0, "ln": 0}
    return extra


_zone_extra = _where_extra(FILENAME)  # dns.zone.from_text is given FILENAME
_rrsets_extra = _where_extra("<input>")  # read_rrsets names its input itself


def _zone_wire(z):
    import io
    for name, rds in z.iterate_rdatasets():
        rds.to_wire(name, io.BytesIO(), origin=z.origin)


def _rrsets_wire(origin):
    def f(rrsets):
        import io
        for rrs in rrsets:
            rrs.to_wire(io.BytesIO(), origin=origin)
    return f


def ev_zone(job, light):
    s = job["s"]
    evs = []
    for o in (ZONE_OPTS_LIGHT if light else ZONE_OPTS):
        rel, org, chk, ad = o
        evs.append(call("zone", o,
                        lambda: dns.zone.from_text(s, origin="example." if org else None, relativize=bool(rel),
                                                   check_origin=bool(chk), allow_directives=ALLOW_DIRECTIVES[ad],
                                                   filename=FILENAME),
                        lambda z: z.to_text(), _zone_wire, _zone_extra))
    for o in ([1, 1], [0, 1], [0, 0], [1, 0]):
        rel, org = o
        origin = EXAMPLE if org else dns.name.root
        evs.append(call("rrsets", o,
                        lambda: dns.zonefile.read_rrsets(s, origin=origin, relativize=bool(rel)),
                        lambda rr: "\n".join(x.to_text() for x in rr), _rrsets_wire(origin), _rrsets_extra))
    return evs


def _zinc_extra(how, v):
    """file:line projection for a zone read from main.zone which $INCLUDEs sub.zone:
    fp = the message starts with "<one of the two files>:<n>: ", fi = 0 main / 1 sub, ln = n."""
    import re
    if how != "exc":
        return {"fp": 0, "fi": 0, "ln": 0}
    m = re.match(r"^(main\.zone|sub\.zone):(\d+): ", str(v))
    if not m:
        return {"fp": 0, "fi": 0, "ln": 0}
    return {"fp": 1, "fi": 1 if m.group(1) == "sub.zone" else 0, "ln": min(int(m.group(2)), 1000000)}


def ev_zinc(job, light):
    """The zone text of the job is written to main.zone (which $INCLUDEs sub.zone) in a
    directory of its own under the work directory of the run and read with allow_include."""
    import os
    import shutil
    d = os.path.join(job["wd"], "zinc.%d" % os.getpid())
    os.makedirs(d, exist_ok=True)
    for fn, text in (("main.zone", job["s"]), ("sub.zone", job["sub"])):
        with open(os.path.join(d, fn), "w", encoding="utf-8") as f:
            f.write(text)
    cwd = os.getcwd()
    os.chdir(d)
    evs = []
    try:
        for o in ([1, 1, 0, 1], [0, 1, 0, 1], [1, 1, 1, 1], [1, 0, 0, 1]):
            rel, org, chk, ad = o
            evs.append(call("zinc", o,
                            lambda: dns.zone.from_file("main.zone", origin="example." if org else None, relativize=bool(rel),
                                                       check_origin=bool(chk), allow_include=True),
                            lambda z: z.to_text(), _zone_wire, _zinc_extra))
    finally:
        os.chdir(cwd)
        shutil.rmtree(d, ignore_errors=True)
    return evs


def ev_msgt(job, light):
    s = job["s"]
    evs = []
    for one in (0, 1):
        evs.append(call("msgt", [one], lambda: dns.message.from_text(s, one_rr_per_rrset=bool(one)),
                        lambda m: m.to_text(), lambda m: m.to_wire()))
    return evs


def ev_optm(job, light):
    """An option inside the OPT record of a message: the message under every option vector,
    and the OPT RDATA on its own through dns.rdata.from_wire."""
    w = bytes(job["w"])
    evs = ev_msg(job, light)
    for org in (0, 1):
        origin = EXAMPLE if org else None
        evs.append(call("rdw", [org], lambda: dns.rdata.from_wire("IN", "OPT", w, job["cur"], job["len"], origin),
                        lambda rd: rd.to_text(), lambda rd: rd.to_wire(origin=origin)))
    return evs


KINDS = {"zinc": ev_zinc, "optm": ev_optm, "rdg": ev_rdt, "msg": ev_msg, "namew": ev_namew, "rdw": ev_rdw, "optw": ev_optw, "namet": ev_namet, "rdt": ev_rdt,
         "ttl": ev_ttl, "zone": ev_zone, "msgt": ev_msgt}
_LIMITED = False


def _limit_memory():
    """A runaway allocation becomes a MemoryError event instead of taking the machine down."""
    global _LIMITED
    if not _LIMITED:
        _LIMITED = True
        try:
            import resource
            resource.setrlimit(resource.RLIMIT_AS, (6 << 30, 6 << 30))
        except Exception:
            pass


def run_job(job):
    """job -> trace; a crash of the driver itself becomes an event nobody matches."""
    _limit_memory()
    tr = {k: v for k, v in job.items() if k not in ("light", "wd")}
    try:
        tr["ev"] = KINDS[job["kind"]](job, bool(job.get("light")))
    except BaseException as e:  # noqa: B902
        tr["ev"] = [{"op": "driver-crash", "opts": [0], "out": ["crash"], "cls": repr(e)[:200],
                     "rt": ["none"], "rtc": "-", "rw": ["none"], "rwc": "-"}]
    return tr


# ---------------------------------------------------------------------------- seeded random inputs
def random_jobs(seed, n, table, bases):
    """n seeded random byte / character strings (lengths 0-600) spread over all kinds.
    Two thirds are mutations of valid specimens (random strings alone rarely get past the
    first check of a parser), one third uniform noise."""
    import random
    rnd = random.Random(seed * 7919 + 17)
    rds = table["rdata"]
    opts = table["options"]
    alphabet = "abcXYZ019 .@$\\\"();\n\t-_*/:=,'\x00\x7fé٠"
    jobs = []

    def rbytes(base):
        mode = rnd.random()
        if mode < 0.34 or not base:
            return [rnd.randrange(256) for _ in range(min(600, int(rnd.expovariate(1 / 40.0))))]
        b = list(base)
        for _ in range(rnd.randrange(1, 4)):
            r = rnd.random()
            if r < 0.5 and b:
                b[rnd.randrange(len(b))] = rnd.choice([0, 1, 63, 64, 0x7f, 0x80, 0xc0, 0xff, rnd.randrange(256)])
            elif r < 0.7 and b:
                del b[rnd.randrange(len(b)):][:rnd.randrange(1, 5)]
            elif r < 0.85:
                p = rnd.randrange(len(b) + 1)
                b[p:p] = [rnd.randrange(256) for _ in range(rnd.randrange(1, 9))]
            else:
                b = b[:rnd.randrange(len(b) + 1)]
        return b[:600]

    def rtext(base):
        mode = rnd.random()
        if mode < 0.34 or not base:
            return "".join(rnd.choice(alphabet) for _ in range(min(600, int(rnd.expovariate(1 / 30.0)))))
        s = list(base)
        for _ in range(rnd.randrange(1, 4)):
            r = rnd.random()
            p = rnd.randrange(len(s) + 1)
            if r < 0.5:
                s[p:p + 1] = [rnd.choice(alphabet)]
            elif r < 0.7:
                del s[p:p + rnd.randrange(1, 4)]
            else:
                s[p:p] = list(rnd.choice(['\\\u00b2', '\\1\u00b2\u00b3', '\\12\u2460', '\\\u0663\u0663\u0663', '\u00e9', '\\', '"', '""', '(', ')', '\\256', '\\1', ' ', '\n', ';', '$', '99999999999', '-1']))
        return "".join(s)[:600]

    def base(kind):
        b = bases.get(kind) or [None]
        return rnd.choice(b)

    kinds = ["msg", "msg", "namew", "rdw", "rdw", "optw", "namet", "rdt", "rdt", "ttl", "zone", "zone", "msgt"]
    for i in range(n):
        kind = kinds[i % len(kinds)]
        job = {"tid": "rnd%d.%d" % (seed, i), "kind": kind, "src": "rnd", "light": True}
        if kind == "msg":
            job["w"] = rbytes(base("msg"))
        elif kind == "namew":
            job["w"] = rbytes(base("namew"))
            job["cur"] = rnd.randrange(len(job["w"]) + 2)
        elif kind == "rdw":
            sp = rnd.choice(rds)
            pre = [rnd.randrange(256) for _ in range(rnd.choice([0, 0, 3, 12]))]
            body = rbytes(list(bytes.fromhex(sp["wire"])))
            job.update(cls=sp["cls"], type=sp["type"], w=pre + body, cur=len(pre),
                       rdlen=max(0, len(body) + rnd.choice([0, 0, 0, -1, 1])))
        elif kind == "optw":
            sp = rnd.choice(opts)
            body = rbytes(list(bytes.fromhex(sp["wire"])))
            job.update(code=rnd.choice([sp["code"], sp["code"], rnd.randrange(0, 20), rnd.randrange(65536)]),
                       w=body, cur=0, olen=max(0, len(body) + rnd.choice([0, 0, 0, -1, 1])))
        elif kind == "rdt":
            sp = rnd.choice([x for x in rds if x["toks"]])
            job.update(cls=sp["cls"], type=sp["type"], s=rtext(" ".join(sp["toks"])))
        else:
            job["s"] = rtext(base(kind))
        jobs.append(job)
    return jobs
