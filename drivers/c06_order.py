"""C06 driver: evaluates the real dns.name / dns.namedict code on one input and records
one event per evaluation (arguments + outputs / exception class).  Only drives and
projects; Trace_DnsName recomputes every output with the specification's operators.

A name travels as a list of labels, a label as a list of octets."""
import copy
import pickle

import dns.exception
import dns.name
import dns.namedict

RELATION = {
    dns.name.NameRelation.NONE: "none",
    dns.name.NameRelation.SUPERDOMAIN: "superdomain",
    dns.name.NameRelation.SUBDOMAIN: "subdomain",
    dns.name.NameRelation.EQUAL: "equal",
    dns.name.NameRelation.COMMONANCESTOR: "commonancestor",
}


def mk(labels):
    """Build a Name from the JSON form; the universes only contain legal names."""
    return dns.name.Name([bytes(x) for x in labels])


def js(name):
    return [list(x) for x in name.labels]


def sign(x):
    return (x > 0) - (x < 0)


def outcome(fn, proj=js):
    """["ok", projection] or ["err", exception class, is-a-library-error]"""
    try:
        return ["ok", proj(fn())]
    except Exception as ex:  # noqa: BLE001 - the class is the observation
        return ["err", type(ex).__name__, isinstance(ex, dns.exception.DNSException)]


CTORS = ["copy", "deepcopy"] + ["pickle%d" % p for p in range(pickle.HIGHEST_PROTOCOL + 1)]


def derive(x, ctor):
    """the same name obtained another way than through Name(labels)"""
    if ctor == "Name":
        return x
    if ctor == "copy":
        return copy.copy(x)
    if ctor == "deepcopy":
        return copy.deepcopy(x)
    if ctor.startswith("pickle"):
        return pickle.loads(pickle.dumps(x, int(ctor[6:])))
    raise ValueError(ctor)


def ev_derived(a, ca, b, cb):
    """the pair observations on objects produced by copy / deepcopy / pickle round trips; the
    labels logged are those the derived objects actually carry"""
    x, y = derive(mk(a), ca), derive(mk(b), cb)
    ev = pair_obs(x, y, js(x), js(y))
    ev["ca"], ev["cb"], ev["a0"], ev["b0"] = ca, cb, a, b
    return ev


def ev_pair(a, b):
    return pair_obs(mk(a), mk(b), a, b)


def pair_obs(x, y, a, b):
    rel, order, n = x.fullcompare(y)
    return {"op": "pair", "a": a, "b": b, "fc": [RELATION[rel], sign(order), n],
            "rich": [x == y, x != y, x < y, x <= y, x > y, x >= y],
            "heq": hash(x) == hash(y), "sub": x.is_subdomain(y), "sup": x.is_superdomain(y)}


def ev_name(n):
    x = mk(n)
    splits = []
    for d in range(-1, len(x) + 2):
        try:
            p, s = x.split(d)
            splits.append(["ok", js(p), js(s)])
        except Exception as ex:  # noqa: BLE001
            splits.append(["err", type(ex).__name__])
    return {"op": "name", "n": n, "parent": outcome(x.parent), "splits": splits, "len": len(x), "abs": x.is_absolute()}


def ev_rel(n, o):
    x, org = mk(n), mk(o)
    return {"op": "rel", "n": n, "o": o,
            "rel": outcome(lambda: x.relativize(org)),
            "derel": outcome(lambda: x.derelativize(org)),
            "back": outcome(lambda: x.relativize(org).derelativize(org)),
            "crt": outcome(lambda: x.choose_relativity(org, True)),
            "crf": outcome(lambda: x.choose_relativity(org, False))}


def ev_neigh(op, n, o, p):
    x, org = mk(n), mk(o)
    f = x.successor if op == "succ" else x.predecessor
    return {"op": op, "n": n, "o": o, "p": p, "res": outcome(lambda: f(org, p))}


def ev_sorted(names):
    xs = [mk(n) for n in names]
    perm = sorted(range(len(xs)), key=lambda i: xs[i])
    ev = {"op": "sorted", "names": names, "perm": [i + 1 for i in perm], "min": 1, "max": 1}
    if xs:
        ev["min"] = min(range(len(xs)), key=lambda i: xs[i]) + 1
        ev["max"] = max(range(len(xs)), key=lambda i: xs[i]) + 1
    return ev


def ev_deepest(keys, dels, q):
    d = dns.namedict.NameDict()
    for i, k in enumerate(keys):
        d[mk(k)] = i
    for k in dels:
        try:
            del d[mk(k)]
        except KeyError:
            pass
    return {"op": "deepest", "keys": keys, "dels": dels, "q": q,
            "res": outcome(lambda: d.get_deepest_match(mk(q))[0])}


def ev_concat(a, b):
    return {"op": "concat", "a": a, "b": b, "res": outcome(lambda: mk(a).concatenate(mk(b)))}


def held(name):
    """octets the object actually holds (a label left as str is reported through allbytes)"""
    return [list(x) if isinstance(x, bytes) else list(x.encode()) for x in name.labels]


STR_CHARS = {1: "a", 2: "\u00e9", 3: "\u20ac", 4: "\U0001f600"}


def ev_construct(ls):
    ev = {"op": "construct", "ls": ls, "allbytes": True, "res": outcome(lambda: dns.name.Name([bytes(x) for x in ls]), held)}
    return ev


def ev_construct_str(spec, absolute, mixed):
    """Name(...) from `str` labels: spec = [[w, k], ...] = k characters of w UTF-8 octets each;
    mixed: every second label is passed as bytes instead"""
    labels = [STR_CHARS[w] * k for w, k in spec] + ([""] if absolute else [])
    if mixed:
        labels = [x.encode() if i % 2 else x for i, x in enumerate(labels)]
    ls = [list(x.encode()) if isinstance(x, str) else list(x) for x in labels]
    box = {}

    def build():
        box["n"] = dns.name.Name(labels)
        return box["n"]
    res = outcome(build, held)
    allbytes = all(isinstance(x, bytes) for x in box["n"].labels) if "n" in box else True
    return {"op": "construct", "ls": ls, "src": [spec, absolute, mixed], "allbytes": allbytes, "res": res}


EVENTS = {"construct_str": ev_construct_str, "derived": ev_derived, "concat": ev_concat, "construct": ev_construct, "pair": ev_pair, "name": ev_name, "rel": ev_rel, "neigh": ev_neigh, "sorted": ev_sorted,
          "deepest": ev_deepest}


def run_job(job):
    """job = (tid, kind, args) -> trace with one event"""
    tid, kind, args = job
    try:
        ev = EVENTS[kind](*args)
    except Exception as ex:  # noqa: BLE001 - a driver crash is an event nobody matches
        ev = {"op": "crash", "kind": kind, "error": "%s: %s" % (type(ex).__name__, ex)}
    return {"tid": tid, "ev": [ev]}
