"""X07 driver, part B: the typed helpers of dns.tokenizer.Tokenizer.  One event per call;
the script stops at the first exception.  Drives and projects only."""
import dns.exception
import dns.name
import dns.tokenizer

from drivers.x07_lexer import KIND, codes, make, state

DIGITS = "0123456789abcdef"


def digits(n, base):
    """digit values of a non-negative int, most significant first"""
    if not isinstance(n, int) or isinstance(n, bool) or n < 0:
        return [-2]
    out = []
    while True:
        out.append(n % base)
        n //= base
        if n == 0:
            break
    return out[::-1]


def do_call(tk, c):
    h, base, arg = c["h"], c["base"], c["arg"]
    none = None if arg < 0 else arg
    if h == "get_uint8":
        return {"val": digits(tk.get_uint8(), 10)}
    if h in ("get_int", "get_uint16", "get_uint32", "get_uint48"):
        return {"val": digits(getattr(tk, h)(base), base)}
    if h == "get_string":
        return {"val": codes(tk.get_string(max_length=none) if arg >= 0 else tk.get_string())}
    if h == "get_identifier":
        return {"val": codes(tk.get_identifier())}
    if h == "get_eol":
        return {"val": codes(tk.get_eol())}
    if h == "get_ttl":
        v = tk.get_ttl()
        return {"val": [v if isinstance(v, int) and 0 <= v < 2 ** 31 else -2]}
    if h == "get_name":
        n = tk.get_name()
        return {"val": codes(n.to_text()) if isinstance(n, dns.name.Name) else [-2]}
    if h == "get_remaining":
        toks = tk.get_remaining(max_tokens=none) if arg >= 0 else tk.get_remaining()
        return {"val": [], "toks": [{"k": KIND.get(t.ttype, "?"), "v": codes(t.value), "e": bool(t.has_escape)} for t in toks]}
    if h == "concatenate_remaining_identifiers":
        return {"val": codes(tk.concatenate_remaining_identifiers(allow_empty=bool(arg)))}
    raise ValueError(h)


def replay(job):
    text = "".join(chr(c) for c in job["s"])
    tk = make(text, job["src"])
    ev = []
    for c in job["calls"]:
        e = {"op": "call", "h": c["h"], "base": c["base"], "arg": c["arg"]}
        try:
            e.update(do_call(tk, c))
            e["res"] = "ok"
        except Exception as ex:   # noqa: BLE001 - every exception is an outcome
            e.update(res="err", exc=type(ex).__name__, fam=isinstance(ex, dns.exception.SyntaxError), val=[])
        e.update(state(tk))
        ev.append(e)
        if e["res"] == "err":
            break
    return {"tid": job["tid"], "s": job["s"], "src": job["src"], "ev": ev}


def run_job(job):
    try:
        return replay(job)
    except Exception as ex:   # noqa: BLE001
        return {"tid": job["tid"], "s": job["s"], "src": job.get("src", "?"), "ev": [{"op": "driver-error", "exc": repr(ex)[:200]}]}
