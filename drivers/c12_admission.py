"""C12 driver: run writer / reader threads on a REAL dns.versioned.Zone under the deterministic
scheduler (vlib/sched.py) and record one event per observable operation.

Only drives and projects; Trace_WriterAdmission judges.  The zone is built with the real
threading module, then `zone._version_lock` is replaced by a shim lock and
`dns.versioned.threading` is rebound to the shim for the duration of one run (this process
only).  `dns.versioned.Transaction` is rebound to a subclass that remembers which logical
thread created the transaction, so that `_write_txn` / `_readers` can be projected to
thread ids.

Content: names `a` and `b` each hold one TXT rdata  "_" tag tag ...  A write transaction
that commits reads the tag list of `a` inside the transaction and replaces BOTH rdatasets
by the list + its own tag (read-modify-write over two names: lost updates, dirty reads,
wrong order and half-applied transactions are all visible in the content).

Event fields: op, t (thread id, 0 = controller), o (index of the shim Event, else 0) and
for acquire/release `st`, the projection of the shared state at that instant:
  wt  thread owning zone._write_txn (0 = None)      we  index of zone._write_event (0 = None)
  wq  indices of the events in zone._write_waiters  es  indices of the events that are set
  vids ids in zone._versions                        rd  [[reader thread, pinned id], ...]
  pub / pubb  tag lists of `a` / `b` in zone.nodes  lastc  tag list of `a` in _versions[-1]
"""
import dns.btreezone
import dns.name
import dns.rdata
import dns.rdataclass
import dns.rdataset
import dns.rdatatype
import dns.transaction
import dns.versioned
import dns.zone

from vlib import sched

ORIGIN = dns.name.from_text("example.")
NA = dns.name.from_text("a", None)
NB = dns.name.from_text("b", None)
TXT = dns.rdatatype.TXT
IN = dns.rdataclass.IN

class Boom(Exception):
    pass


_CUR = [None]  # the scheduler of the run in progress (one run at a time per process)
_ALIAS = {}  # scheduler thread id -> specification writer id (only differs in hand-off runs)


class RecTxn(dns.zone.Transaction):
    """dns.zone.Transaction + the logical thread that created it."""

    def __init__(self, *a, **kw):
        super().__init__(*a, **kw)
        s = _CUR[0]
        me = (s.current() or 0) if s is not None else 0
        self._v_owner = _ALIAS.get(me, me)


def zone_class(name):
    if name == "btree":
        return dns.btreezone.Zone
    return dns.versioned.Zone


def trace_codes(zcls):
    fs = [zcls.writer, zcls._end_write, zcls._end_write_unlocked, zcls._commit_version,
          zcls._commit_version_unlocked, zcls._maybe_wakeup_one_waiter_unlocked, zcls.reader,
          zcls._end_read, zcls._prune_versions_unlocked, zcls._get_next_version_id,
          zcls.set_pruning_policy, zcls.set_max_versions,
          dns.zone.Transaction._setup_version, dns.zone.Transaction._end_transaction,
          dns.transaction.Transaction.__exit__, dns.transaction.Transaction._end,
          dns.zone.WritableVersion.__init__]
    return {f.__code__ for f in fs}


_rd_cache = {}


def make_rds(tags):
    key = tuple(tags)
    r = _rd_cache.get(key)
    if r is None:
        text = " ".join(['"_"'] + ['"%d"' % x for x in tags])
        rd = dns.rdata.from_text(IN, TXT, text)
        r = dns.rdataset.Rdataset(IN, TXT, ttl=300)
        r.add(rd, 300)
        _rd_cache[key] = r
    return r


def tags_of_rds(rds):
    try:
        if rds is None or len(rds) != 1:
            return [-1]
        out = [int(x) for x in rds[0].strings[1:]]
        return out
    except Exception:  # noqa: BLE001
        return [-2]


def tags_in_nodes(nodes, name):
    try:
        node = nodes.get(name)
        if node is None:
            return [-1]
        return tags_of_rds(node.get_rdataset(IN, TXT))
    except Exception:  # noqa: BLE001
        return [-3]


def tags_in_txn(txn, name):
    try:
        return tags_of_rds(txn.get(name, TXT))
    except Exception:  # noqa: BLE001
        return [-4]


class Run:
    def __init__(self, job):
        self.job = job
        self.ev = []
        self.events = []  # every shim Event created, in creation order
        zcls = zone_class(job.get("zclass", "versioned"))
        self.zone = zcls(ORIGIN)
        with self.zone.writer(True) as txn:  # real threading: initial content, version id 2
            txn.replace(NA, make_rds([]))
            txn.replace(NB, make_rds([]))
        codes = trace_codes(zcls) if job["mode"] == "lines" else ()
        self.s = sched.Scheduler(make_policy(job["policy"]), max_steps=job.get("max_steps", 6000),
                                 trace_codes=codes, observer=self.observe)
        self.lock = self.s.shim.Lock()

    # -- projection of the shared state
    def state(self):
        z = self.zone
        wt = z._write_txn
        we = z._write_event
        return {
            "wt": getattr(wt, "_v_owner", 99) if wt is not None else 0,
            "we": getattr(we, "idx", 99) if we is not None else 0,
            "wq": [getattr(e, "idx", 99) for e in z._write_waiters],
            "es": [e.idx for e in self.events if e.flag],
            "vids": [int(v.id) for v in z._versions],
            "rd": sorted([getattr(t, "_v_owner", 99), int(t.version.id)] for t in z._readers),
            "pub": tags_in_nodes(z.nodes, NA),
            "pubb": tags_in_nodes(z.nodes, NB),
            "lastc": tags_in_nodes(z._versions[-1].nodes, NA) if len(z._versions) else [-5],
        }

    def observe(self, tid, kind, obj, info):
        e = {"op": kind, "t": _ALIAS.get(tid, tid), "o": 0}
        if isinstance(obj, sched.ShimEvent):
            e["o"] = obj.idx
            if kind == "newevent":
                self.events.append(obj)
        elif obj is not None and obj is not self.lock:
            e["o"] = 1000 + obj.idx  # an unexpected synchronisation object
        if kind in ("acquire", "release"):
            e["st"] = self.state()
        for k, v in info.items():
            e[k] = v
        self.ev.append(e)

    # -- logical threads
    # how a writer leaves its transaction.  "commit" / "rollback" / "empty" call commit() / rollback() /
    # commit() without changes explicitly; the others leave a `with zone.writer() as txn:` block by raising
    # AFTER having written (so a write that leaks or is committed shows in the content): an Exception, or a
    # BaseException that is not an Exception (SystemExit, KeyboardInterrupt, GeneratorExit), caught by the
    # thread body outside the block.  All of them must end the write transaction (rollback path of the spec).
    LEAVE = {"raise": Boom, "exit": SystemExit, "interrupt": KeyboardInterrupt, "genexit": GeneratorExit}

    def _in_txn(self, tid, k, how, txn):
        s = self.s
        tag = tid * 10 + k
        s.yield_point("returned")
        s.observe("returned", None, ver=int(txn.version.id), snap=tags_in_txn(txn, NA), snapb=tags_in_txn(txn, NB))
        s.yield_point("body")
        read = tags_in_txn(txn, NA)
        if how == "commit" or how in self.LEAVE:
            txn.replace(NA, make_rds(read + [tag]))
            txn.replace(NB, make_rds(read + [tag]))
        s.observe("body", None, how=how, read=read)

    def writer_thread(self, tid, hows):
        s, z = self.s, self.zone
        for k, how in enumerate(hows, start=1):
            if how in self.LEAVE:
                exc = self.LEAVE[how]
                try:
                    with z.writer() as txn:
                        self._in_txn(tid, k, how, txn)
                        raise exc()
                except exc:
                    pass
            else:
                txn = z.writer()
                self._in_txn(tid, k, how, txn)
                if how == "rollback":
                    txn.rollback()
                else:
                    txn.commit()
            s.emit("ended", how=how)

    # Hand-off: transaction objects are not bound to the thread that opened them.  OS thread A (scheduler id 1)
    # opens the transaction of specification writer 1, hands the object to a helper thread (scheduler id 8) that
    # ends it, and itself goes on calling writer() again as specification writer 2.  Events carry the
    # specification writer id (_ALIAS), schedules the scheduler ids.
    def handoff_thread(self, how1, hows2):
        txn = self.zone.writer()
        self._in_txn(1, 1, how1, txn)
        self.box.append(txn)
        _ALIAS[1] = 2
        self.writer_thread(2, hows2)

    def helper_thread(self, how1):
        s = self.s
        s.yield_point("handoff", None, lambda: bool(self.box))
        txn = self.box[0]
        if how1 == "rollback":
            txn.rollback()
        else:
            txn.commit()
        s.emit("ended", how=how1)

    def reader_thread(self, tid, n, mode):
        s, z = self.s, self.zone
        first = self.vid0 if mode == "byinit" else 0  # "byinit": every transaction asks for the initial version
        for _ in range(n):
            try:
                # a "byid" reader re-opens the version its first transaction saw (it may have been
                # pruned meanwhile: KeyError, which the specification allows exactly then)
                txn = z.reader(id=first) if (mode in ("byid", "byinit") and first) else z.reader()
            except KeyError:
                s.emit("rfail", vid=first)
                continue
            if not first:
                first = int(txn.version.id)
            for op in ("ropen", "rread"):
                s.yield_point(op)
                s.observe(op, None, vid=int(txn.version.id), c=tags_in_txn(txn, NA), cb=tags_in_txn(txn, NB),
                          peek=tags_in_nodes(z.nodes, NA), peekb=tags_in_nodes(z.nodes, NB))
            txn.rollback()
            s.emit("rclosed")

    def policy_thread(self, tid, values):
        s, z = self.s, self.zone
        for n in values:
            z.set_max_versions(n if n else None)  # 0 stands for None (keep everything)
            s.emit("policyset", n=n)

    def go(self):
        job = self.job
        z = self.zone
        vid0 = self.vid0 = int(z._versions[-1].id)
        old_thr, old_txn = dns.versioned.threading, dns.versioned.Transaction
        _CUR[0] = self.s
        try:
            z._version_lock = self.lock
            dns.versioned.threading = self.s.shim
            dns.versioned.Transaction = RecTxn
            _ALIAS.clear()
            self.box = []
            hand = bool(job.get("handoff"))
            for i, hows in enumerate(job["plan"], start=1):
                if hand and i == 1:
                    _ALIAS[8] = 1
                    self.s.spawn(1, self.handoff_thread, hows[0], list(job["plan"][1]))
                    self.s.spawn(8, self.helper_thread, hows[0])
                elif hand and i == 2:
                    continue  # specification writer 2 is the continuation of OS thread 1
                elif hows:
                    self.s.spawn(i, self.writer_thread, i, hows)
            for i, n in enumerate(job["rplan"], start=5):
                if n:
                    self.s.spawn(i, self.reader_thread, i, n, (list(job.get("rmode", [])) + ["latest", "latest"])[i - 5])
            if job.get("pplan"):
                self.s.spawn(7, self.policy_thread, 7, list(job["pplan"]))
            res = self.s.run()
        finally:
            dns.versioned.threading = old_thr
            dns.versioned.Transaction = old_txn
            _CUR[0] = None
            _ALIAS.clear()
        if not (res.deadlock or res.budget_exceeded):
            st = self.state()
            st["lk"] = 0 if self.lock.owner is None else 99
            self.ev.append({"op": "final", "t": 0, "o": 0, "st": st})
        return res, vid0


def make_policy(p):
    if p[0] == "list":
        return sched.ListPolicy(p[1])
    if p[0] == "pre":
        return sched.PreemptPolicy(p[1], {int(a): b for a, b in p[2]})
    if p[0] == "rand":
        return sched.RandomPolicy(p[1], p[2], p[3] if len(p) > 3 else 0.05)
    raise ValueError(p)


def run_one(job):
    """job: tid, plan [[how,...] per writer 1..], rplan [n per reader 5..], rmode ["latest"|"byid" per
    reader], pplan [max_versions
    values set by the policy thread 7; 0 = None], mode ops|lines, policy, zclass.  Returns (trace, sched.Result)."""
    try:
        r = Run(job)
        res, vid0 = r.go()
        ev = r.ev
        meta = {"steps": res.steps, "lines": res.line_steps, "subs": len(res.substitutions)}
    except Exception as e:  # noqa: BLE001 - a driver crash is an event nobody matches
        res, vid0 = None, 2
        ev = [{"op": "driver_crash", "t": 0, "o": 0, "exc": "%s: %s" % (type(e).__name__, str(e)[:200])}]
        meta = {"steps": 0, "lines": 0, "subs": 0}
    plan = [list(x) for x in job["plan"]] + [[] for _ in range(4 - len(job["plan"]))]
    rplan = list(job["rplan"]) + [0] * (2 - len(job["rplan"]))
    rmode = (list(job.get("rmode", [])) + ["latest", "latest"])[:2]
    tr = {"tid": job["tid"], "plan": plan, "rplan": rplan, "rmode": rmode, "pplan": list(job.get("pplan", [])), "vid0": vid0, "mode": job["mode"], "handoff": bool(job.get("handoff")),
          "zclass": job.get("zclass", "versioned"), "meta": meta, "ev": ev}
    return tr, res


def run_job(job):
    tr, res = run_one(job)
    if res is not None:
        set_sched(tr, res)
    return tr


def set_sched(tr, res):
    """ran: the exact schedule (negative id = that thread's timed wait timed out);
    sched: the same, printable."""
    tr["ran"] = [int(t) for t in res.ran]
    tr["sched"] = "".join(str(t) if t > 0 else "~%d" % -t for t in res.ran)
    tr["meta"]["timeouts"] = res.timeouts


def ev_key(tr):
    """Two runs with the same key are indistinguishable to the trace specification."""
    return repr((tr["plan"], tr["rplan"], tr["rmode"], tr["pplan"], tr["vid0"], tr.get("handoff"), tr["ev"]))


def run_bounded(job):
    """Iterative preemption bounding below one first-level choice.

    job: base (a run_one job with policy ["pre", priority, devs]), k (how many further
    deviations to place after the last one in devs), kinds (None or list of step kinds at
    which deviations are placed), levels (optional: one {"kinds": [...], "funcs": [...]}
    filter per remaining depth, outermost first - a targeted sub-family of the k-bounded
    schedules).  Returns {"traces": distinct traces, "runs": n}."""
    base = dict(job["base"])
    kinds = set(job["kinds"]) if job.get("kinds") else None
    levels = job.get("levels")
    seen = {}
    runs = 0

    def rec(devs, k, name):
        nonlocal runs
        j = dict(base)
        j["policy"] = ["pre", base["policy"][1], devs]
        j["tid"] = name
        tr, res = run_one(j)
        runs += 1
        if res is not None:
            set_sched(tr, res)
        key = ev_key(tr)
        if key not in seen:
            seen[key] = tr
        if k <= 0 or res is None:
            return
        last = max([a for a, _ in devs], default=-1)
        lv = levels[len(levels) - k] if levels else {}
        for (i, t) in sched.deviations_of(res, after=last, kinds=set(lv["kinds"]) if lv.get("kinds") else kinds,
                                          funcs=set(lv["funcs"]) if lv.get("funcs") else None):
            rec(devs + [[i, t]], k - 1, "%s_%d.%d" % (name, i, t))

    rec([list(d) for d in base["policy"][2]], job["k"], job["tid"])
    return {"traces": list(seen.values()), "runs": runs}
