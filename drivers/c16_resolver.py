"""C16 driver: run one environment script (from Gen_Resolution) through the REAL stub
resolvers -- dns.resolver.Resolver.resolve and dns.asyncresolver.Resolver.resolve -- with
scripted dns.nameserver.Nameserver objects and a virtual clock, and record what the code
did: every query (server, tcp, timeout, question), every sleep, how each resolve() call
ended, the Answer's rrset / canonical name / expiration, the cache contents.
Only drives and projects; Trace_Resolution judges.

A script is a list of records (the environment's choices only):
  {"op":"cfg", ns, rsf, tcp, rna, cache, life, tmo, qtype, search, domain, ndots, usd, t0}
  {"op":"begin", qname, search ("none"|"true"|"false"), life (ticks, 0 = resolver default), qtype, qclass}
  {"op":"out", out: <outcome>, adv: ticks}      consumed, in order, by whichever server is asked
  {"op":"adv", d: ticks}                        clock advance between two resolve() calls
Names are lists of labels, absolute names end with "".  Time is in ticks of 1/16 s."""
import asyncio

import dns.asyncbackend
import dns.asyncresolver
import dns.exception
import dns.flags
import dns.message
import dns.name
import dns.nameserver
import dns.rcode
import dns.rdata
import dns.rdataclass
import dns.rdatatype
import dns.resolver
import dns.rrset

from vlib.vclock import VClock

TICK = 1 / 16
IN = dns.rdataclass.IN
UNBOUNDED = 2147483647  # TLC integers are 32-bit: any TTL >= 2^31-1 is logged as this ("nothing bounded it")


def clamp_ttl(ttl):
    return UNBOUNDED if ttl >= UNBOUNDED else int(ttl)


class ScriptExhausted(BaseException):
    """The code asked for more than the script holds (BaseException: resolve() must not swallow it)."""


class OtherError(Exception):
    """An exception the resolver knows nothing about."""


def to_name(labels):
    return dns.name.Name([x.encode() for x in labels])


def from_name(name):
    return [x.decode() for x in name.labels]


_RD = {}


def rdata_for(rdclass, ty, tgt):
    key = (int(rdclass), ty, tuple(tgt))
    rd = _RD.get(key)
    if rd is None:
        rdtype = dns.rdatatype.from_text(ty)
        if ty == "CNAME":
            text = to_name(tgt).to_text()
        elif ty == "A":
            text = "10.0.0.1" if rdclass == IN else "chaos.invalid. 1"
        elif ty == "AAAA":
            text = "2001:db8::1"
        elif ty == "TXT":
            text = '"x"'
        else:
            raise ValueError(ty)
        rd = dns.rdata.from_text(rdclass, rdtype, text)
        _RD[key] = rd
    return rd


_EXC = {
    "Timeout": lambda: dns.exception.Timeout(timeout=1.0),
    "FormError": lambda: dns.exception.FormError(),
    "EOF": lambda: EOFError(),
    "OSError": lambda: OSError("network unreachable"),
    "NotImpl": lambda: NotImplementedError(),
    "Truncated": lambda: dns.message.Truncated(),
    "Other": lambda: OtherError("other"),
}


def build_response(request, o):
    """The abstract response o as a dns.message; every RRset is in the class of the question."""
    r = dns.message.make_response(request)
    cls = request.question[0].rdclass if request.question else IN
    r.set_rcode(dns.rcode.from_text(o["rcode"]))
    for rr in o["ans"]:
        rdtype = dns.rdatatype.from_text(rr["ty"])
        r.find_rrset(r.answer, to_name(rr["n"]), cls, rdtype, create=True).add(rdata_for(cls, rr["ty"], rr["tgt"]), rr["ttl"])
    for s in o["auth"]:
        rd = dns.rdata.from_text(cls, dns.rdatatype.SOA, "ns.invalid. admin.invalid. 1 3600 600 86400 %d" % s["min"])
        r.find_rrset(r.authority, to_name(s["n"]), cls, dns.rdatatype.SOA, create=True).add(rd, s["ttl"])
    if not o["qr"]:
        r.flags &= ~dns.flags.QR
    if o["nq"] == 0:
        r.question = []
    elif o["nq"] == 2:
        r.question.append(dns.rrset.RRset(to_name(["second", ""]), IN, dns.rdatatype.A))
    return r


class Env:
    """Shared by the scripted servers of one run: the clock, the outcome queue, the log."""

    def __init__(self, clock):
        self.clock = clock
        self.queue = []
        self.ev = []

    def serve(self, srv, request, timeout, max_size):
        q = request.question[0] if request.question else None
        t, exact = self.clock.exact_ticks(timeout)
        e = {"op": "query", "srv": srv, "tcp": bool(max_size), "tmo": t, "tmox": exact, "now": self.clock.now(),
             "qn": from_name(q.name) if q is not None else [], "qtype": dns.rdatatype.to_text(q.rdtype) if q is not None else "-",
             "qclass": dns.rdataclass.to_text(q.rdclass) if q is not None else "-"}
        if not self.queue:
            e["op"] = "exhausted"
            self.ev.append(e)
            raise ScriptExhausted()
        step = self.queue.pop(0)
        o = step["out"]
        e["out"] = o
        e["adv"] = step["adv"]
        self.ev.append(e)
        self.clock.advance(step["adv"])
        if o["k"] == "exc":
            raise _EXC[o["x"]]()
        return build_response(request, o)


class ScriptedNameserver(dns.nameserver.Nameserver):
    def __init__(self, env, idx):
        super().__init__()
        self.env = env
        self.idx = idx

    def __str__(self):
        return "scripted:%d" % self.idx

    def kind(self):
        return "scripted"

    def is_always_max_size(self):
        return False

    def answer_nameserver(self):
        return "192.0.2.%d" % self.idx

    def answer_port(self):
        return 53

    def query(self, request, timeout, source, source_port, max_size, one_rr_per_rrset=False, ignore_trailing=False):
        return self.env.serve(self.idx, request, timeout, max_size)

    async def async_query(self, request, timeout, source, source_port, max_size, backend, one_rr_per_rrset=False,
                          ignore_trailing=False):
        return self.env.serve(self.idx, request, timeout, max_size)


class VBackend(dns.asyncbackend.Backend):
    def __init__(self, clock):
        self.clock = clock

    def name(self):
        return "virtual"

    async def sleep(self, interval):
        self.clock.sleep(interval)


def rr_proj(rrset):
    if rrset is None:
        return ["none"]
    return ["rr", from_name(rrset.name), dns.rdatatype.to_text(rrset.rdtype), int(rrset.ttl)]


def answer_proj(a):
    """Projection of a dns.resolver.Answer: [created tick, ttl s, rcode, cname, rrset] where
    expiration = created + ttl (created is recovered from the two public attributes)."""
    ttl = int(a.chaining_result.minimum_ttl)
    created = (a.expiration - ttl) / TICK
    ci = int(round(created))
    return {"created": ci if ci == created else -999999, "ttl": clamp_ttl(ttl), "rcode": dns.rcode.to_text(a.response.rcode()),
            "cname": from_name(a.canonical_name), "rr": rr_proj(a.rrset)}


def cache_proj(cache, now_s):
    """Unexpired entries of the resolver's cache: [[name, type, class, entry], ...] sorted."""
    if cache is None:
        return []
    out = []
    for key, v in cache.data.items():
        a = v.value if isinstance(cache, dns.resolver.LRUCache) else v
        if a.expiration <= now_s:
            continue
        out.append([from_name(key[0]), dns.rdatatype.to_text(key[1]), dns.rdataclass.to_text(key[2]), answer_proj(a)])
    out.sort(key=lambda x: (x[0], x[1], x[2]))
    return out


def classify_exc(e):
    for cls, tag in ((dns.resolver.NXDOMAIN, "NXDOMAIN"), (dns.resolver.YXDOMAIN, "YXDOMAIN"),
                     (dns.resolver.NoAnswer, "NoAnswer"), (dns.resolver.NoNameservers, "NoNameservers"),
                     (dns.exception.Timeout, "Timeout")):
        if isinstance(e, cls):
            return tag
    return "other:" + type(e).__name__


_loop = None


def get_loop():
    global _loop
    if _loop is None or _loop.is_closed():
        _loop = asyncio.new_event_loop()
    return _loop


def end_ok(end, a):
    end["res"] = "answer"
    end["ans"] = ["ans", from_name(a.qname), answer_proj(a), dns.rdatatype.to_text(a.rdtype), dns.rdataclass.to_text(a.rdclass)]


def end_exc(end, e):
    if isinstance(e, ScriptExhausted):
        end["res"] = "exhausted"
    elif isinstance(e, Exception):
        end["res"] = classify_exc(e)
        if isinstance(e, dns.resolver.NXDOMAIN):
            end["nxq"] = [from_name(n) for n in e.qnames()]
    else:
        raise e


def end_common(end, env, res, clock):
    end["now"] = clock.now()
    end["left"] = len(env.queue)
    end["cache"] = cache_proj(res.cache, clock.time())
    env.ev.append(end)


def run_resolve_name(res, mode, backend, env, clock, cfg, st):
    """resolve_name(name, family=AF_UNSPEC): the method calls self.resolve() twice (AAAA, then A); those calls
    are observed at the public method boundary by an instance-level wrapper that logs begin / end events."""
    import socket
    real = res.resolve   # bound method of the class
    stage = [0]
    nlife = st["life"] if st["life"] else cfg["life"]   # lifetime of the whole address lookup, in ticks

    def begin_event(qname, rdtype, kw):
        stage[0] += 1
        if isinstance(qname, str):
            qname = dns.name.from_text(qname, None)
        lt = kw.get("lifetime")
        ticks, exact = (0, True) if lt is None else clock.exact_ticks(lt)
        srch = kw.get("search")
        env.ev.append({"op": "begin", "api": "name%d" % min(stage[0], 2), "qname": from_name(qname),
                       "search": "none" if srch is None else ("true" if srch else "false"), "life": ticks if exact else -1,
                       "qtype": dns.rdatatype.to_text(dns.rdatatype.RdataType.make(rdtype)),
                       "qclass": dns.rdataclass.to_text(dns.rdataclass.RdataClass.make(kw.get("rdclass", IN))),
                       "rna": bool(kw.get("raise_on_no_answer", True)), "nlife": nlife, "now": clock.now()})

    def sync_wrapper(qname, rdtype=dns.rdatatype.A, *args, **kw):
        begin_event(qname, rdtype, kw)
        end = {"op": "end", "ans": ["none"], "nxq": []}
        try:
            a = real(qname, rdtype, *args, **kw)
            end_ok(end, a)
            return a
        except BaseException as e:  # noqa
            end_exc(end, e)
            raise
        finally:
            end_common(end, env, res, clock)

    async def async_wrapper(qname, rdtype=dns.rdatatype.A, *args, **kw):
        begin_event(qname, rdtype, kw)
        end = {"op": "end", "ans": ["none"], "nxq": []}
        try:
            a = await real(qname, rdtype, *args, **kw)
            end_ok(end, a)
            return a
        except BaseException as e:  # noqa
            end_exc(end, e)
            raise
        finally:
            end_common(end, env, res, clock)

    kw = dict(tcp=cfg["tcp"], raise_on_no_answer=cfg["rna"], search={"none": None, "true": True, "false": False}[st["search"]],
              lifetime=None if st["life"] == 0 else st["life"] * TICK)
    fin = {"op": "nameend", "res": "ok"}
    res.resolve = sync_wrapper if mode == "sync" else async_wrapper
    try:
        if mode == "sync":
            res.resolve_name(to_name(st["qname"]), socket.AF_UNSPEC, **kw)
        else:
            get_loop().run_until_complete(res.resolve_name(to_name(st["qname"]), socket.AF_UNSPEC, backend=backend, **kw))
    except ScriptExhausted:
        fin["res"] = "exhausted"
    except Exception as e:  # noqa
        fin["res"] = classify_exc(e)
    finally:
        del res.resolve
    fin["now"] = clock.now()
    env.ev.append(fin)


def run_script(script, mode, tid):
    cfg = script[0]
    clock = VClock(TICK, cfg["t0"])
    env = Env(clock)
    clock.on_sleep = lambda secs, n: env.ev.append({"op": "sleep", "d": n, "ms": int(round(secs * 1000)), "now": clock.now() - n})
    saved = (dns.resolver.time, dns.asyncresolver.time)
    stubs = None
    dns.resolver.time = clock
    dns.asyncresolver.time = clock
    try:
        if mode == "sync":
            res = dns.resolver.Resolver(configure=False)
        else:
            res = dns.asyncresolver.Resolver(configure=False)
        glue = cfg.get("glue", "scripted")
        if glue != "scripted":
            # REAL Do53Nameserver objects; the transports they call are stubbed (see Transports).
            # "do53": one address per server; "do53port": one address, the servers differ in the port only
            if glue == "do53port":
                res.nameservers = [dns.nameserver.Do53Nameserver("192.0.2.1", 5300 + i + 1) for i in range(cfg["ns"])]
            else:
                res.nameservers = [dns.nameserver.Do53Nameserver("192.0.2.%d" % (i + 1), 53) for i in range(cfg["ns"])]

            def handler(transport, is_async, q, where, kw):
                idx = kw.get("port", 0) - 5300 if glue == "do53port" else int(str(where).rsplit(".", 1)[1])
                try:
                    return env.serve(idx, q, kw.get("timeout"), transport == "tcp")
                except dns.message.Truncated:  # the scripted reply has TC set
                    if transport == "udp" and kw.get("raise_on_truncation"):
                        raise
                    return tc_message(q)
            stubs = Transports(handler)
            stubs.__enter__()
        else:
            stubs = None
            res.nameservers = [ScriptedNameserver(env, i + 1) for i in range(cfg["ns"])]
        res.rotate = False
        res.retry_servfail = cfg["rsf"]
        res.timeout = cfg["tmo"] * TICK
        res.lifetime = cfg["life"] * TICK
        res.search = [to_name(n) for n in cfg["search"]]
        res.domain = to_name(cfg["domain"])
        res.ndots = None if cfg["ndots"] < 0 else cfg["ndots"]
        res.use_search_by_default = cfg["usd"]
        if cfg["cache"] == "simple":
            res.cache = dns.resolver.Cache()
        elif cfg["cache"] == "lru":
            res.cache = dns.resolver.LRUCache()
        backend = VBackend(clock)
        i = 1
        while i < len(script):
            st = script[i]
            if st["op"] == "adv":
                clock.advance(st["d"])
                env.ev.append({"op": "advance", "d": st["d"]})
                i += 1
                continue
            assert st["op"] == "begin"
            j = i + 1
            while j < len(script) and script[j]["op"] == "out":
                j += 1
            env.queue = list(script[i + 1:j])
            if st.get("api", "resolve") == "name":
                run_resolve_name(res, mode, backend, env, clock, cfg, st)
                i = j
                continue
            env.ev.append({"op": "begin", "api": "resolve", "qname": st["qname"], "search": st["search"], "life": st["life"],
                           "qtype": st["qtype"], "qclass": st["qclass"], "now": clock.now()})
            kw = dict(rdtype=st["qtype"], rdclass=st["qclass"], tcp=cfg["tcp"], raise_on_no_answer=cfg["rna"],
                      search={"none": None, "true": True, "false": False}[st["search"]],
                      lifetime=None if st["life"] == 0 else st["life"] * TICK)
            end = {"op": "end", "ans": ["none"], "nxq": []}
            try:
                if mode == "sync":
                    a = res.resolve(to_name(st["qname"]), **kw)
                else:
                    a = get_loop().run_until_complete(res.resolve(to_name(st["qname"]), backend=backend, **kw))
                end_ok(end, a)
            except BaseException as e:  # noqa
                end_exc(end, e)
            end_common(end, env, res, clock)
            i = j
    finally:
        dns.resolver.time, dns.asyncresolver.time = saved
        if stubs is not None:
            stubs.__exit__()
    return {"tid": tid, "mode": mode, "cfg": cfg, "ev": env.ev}


def run_job(job):
    """job = (script, tid) -> [sync trace, async trace]; the sync trace carries the async
    events as `peer` so that the trace specification can require them to be identical."""
    script, tid = job
    out = []
    for mode in ("sync", "async"):
        try:
            out.append(run_script(script, mode, "%s.%s" % (tid, mode)))
        except BaseException as e:  # a driver crash becomes an event nobody matches
            out.append({"tid": "%s.%s" % (tid, mode), "mode": mode, "cfg": script[0],
                        "ev": [{"op": "crash", "exc": type(e).__name__, "msg": str(e)[:200]}]})
    out[0]["peer"] = [{k: v for k, v in e.items() if k != "out"} for e in out[1]["ev"]]
    return out


def chain_job(job):
    """job = (case, tid) with case = {msg, q, qt} from MC_Chaining: build the response and
    record what dns.message.QueryMessage.resolve_chaining makes of it."""
    case, tid = job
    e = {"op": "chain", "msg": case["msg"], "q": case["q"], "qt": case["qt"],
         "err": "", "cname": [], "rr": ["none"], "ttl": 0, "hops": 0}
    try:
        request = dns.message.make_query(to_name(case["q"]), case["qt"])
        resp = build_response(request, case["msg"])
        try:
            r = resp.resolve_chaining()
            e["cname"] = from_name(r.canonical_name)
            e["rr"] = rr_proj(r.answer)
            e["ttl"] = clamp_ttl(r.minimum_ttl)
            e["hops"] = len(r.cnames)
        except dns.message.NotQueryResponse:
            e["err"] = "NotQueryResponse"
        except dns.message.ChainTooLong:
            e["err"] = "ChainTooLong"
        except dns.message.AnswerForNXDOMAIN:
            e["err"] = "AnswerForNXDOMAIN"
        except dns.exception.FormError:
            e["err"] = "FormError"
    except BaseException as ex:  # noqa
        e = {"op": "crash", "exc": type(ex).__name__, "msg": str(ex)[:200]}
    return {"tid": tid, "ev": [e]}


# --------------------------------------------------------------------------------------
# The real nameserver glue (dns.nameserver) over stubbed transports.
# dns.query.udp/tcp/https/tls/quic and their dns.asyncquery twins are rebound, in this
# process only and only for the duration of one call, to recording stubs.

_TRANSPORTS = ("udp", "tcp", "https", "tls", "quic")
_KNOWN = {"timeout", "port", "source", "source_port", "one_rr_per_rrset", "ignore_trailing", "raise_on_truncation",
          "ignore_errors", "ignore_unexpected", "verify", "post", "server_hostname", "bootstrap_address", "backend",
          "http_version"}


def _tri(kw, key):
    if key not in kw:
        return "absent"
    return "true" if kw[key] else "false"


def _opt_str(kw, key):
    if key not in kw:
        return "absent"
    return "none" if kw[key] is None else str(kw[key])


def project_args(transport, where, kw):
    """Uniformly typed projection of one transport call (see NameserverGlue.tla)."""
    t = kw.get("timeout")
    if t is None:
        ticks = -1
    else:
        ticks, exact = VClock(TICK).exact_ticks(t)
        if not exact:
            ticks = -2
    return {"transport": transport, "where": str(where), "port": int(kw["port"]) if "port" in kw else -1, "timeout": ticks,
            "source": _opt_str(kw, "source"), "source_port": int(kw["source_port"]) if "source_port" in kw else -1,
            "one_rr": _tri(kw, "one_rr_per_rrset"), "ignore_trailing": _tri(kw, "ignore_trailing"),
            "raise_on_truncation": _tri(kw, "raise_on_truncation"), "ignore_errors": _tri(kw, "ignore_errors"),
            "ignore_unexpected": _tri(kw, "ignore_unexpected"), "verify": _tri(kw, "verify"), "post": _tri(kw, "post"),
            "server_hostname": _opt_str(kw, "server_hostname"), "bootstrap": _opt_str(kw, "bootstrap_address"),
            "backend": "given" if kw.get("backend") is not None else "absent",
            "extra": sorted(k for k in kw if k not in _KNOWN)}


def tc_message(request):
    r = dns.message.make_response(request)
    r.flags |= dns.flags.TC
    return r


class Transports:
    """Context manager: rebinds the transport functions of dns.query and dns.asyncquery to
    stubs that call handler(transport, is_async, request, where, kwargs)."""

    def __init__(self, handler):
        self.handler = handler
        self.saved = []

    def __enter__(self):
        import dns.asyncquery
        import dns.query
        for name in _TRANSPORTS:
            self.saved.append((dns.query, name, getattr(dns.query, name)))
            self.saved.append((dns.asyncquery, name, getattr(dns.asyncquery, name)))
            setattr(dns.query, name, self._sync(name))
            setattr(dns.asyncquery, name, self._async(name))
        return self

    def __exit__(self, *a):
        for mod, name, fn in self.saved:
            setattr(mod, name, fn)
        self.saved = []

    def _sync(self, name):
        def stub(q, where, *args, **kw):
            if args:
                kw["__positional__"] = len(args)
            return self.handler(name, False, q, where, kw)
        return stub

    def _async(self, name):
        async def stub(q, where, *args, **kw):
            if args:
                kw["__positional__"] = len(args)
            return self.handler(name, True, q, where, kw)
        return stub


def transport_reply(transport, request, kw, reply):
    """What a transport does with a scripted reply: dns.query.udp raises Truncated for a reply
    with TC iff it was asked to; the other transports return such a reply as it is."""
    if reply == "ok":
        return dns.message.make_response(request)
    if reply == "tc":
        if transport == "udp" and kw.get("raise_on_truncation"):
            raise dns.message.Truncated()
        return tc_message(request)
    raise _EXC[reply.split(":", 1)[1]]()


def make_nameserver(c):
    if c["kind"] == "Do53":
        return dns.nameserver.Do53Nameserver(c["where"], c["port"])
    if c["kind"] == "DoH":
        return dns.nameserver.DoHNameserver(c["where"], bootstrap_address=c["bootstrap"], verify=c["verify"], want_get=c["wantget"])
    if c["kind"] == "DoT":
        return dns.nameserver.DoTNameserver(c["where"], c["port"], c["hostname"], c["verify"])
    if c["kind"] == "DoQ":
        return dns.nameserver.DoQNameserver(c["where"], c["port"], c["verify"], c["hostname"])
    raise ValueError(c["kind"])


def glue_job(job):
    """job = (case, tid), case = {call, reply} from MC_NameserverGlue: call the REAL nameserver object's
    query() and async_query() and record the transport call each makes and what comes back."""
    case, tid = job
    c = case["call"]
    ev = []
    try:
        request = dns.message.make_query("www.example.", "A")
        for mode in ("sync", "async"):
            seen = []

            def handler(transport, is_async, q, where, kw):
                seen.append({"transport": transport, "is_async": is_async, "same_request": q is request,
                             "args": project_args(transport, where, kw)})
                return transport_reply(transport, q, kw, case["reply"])

            ns = make_nameserver(c)
            args = dict(request=request, timeout=c["tmo"] * TICK, source=None if c["source"] == "none" else c["source"],
                        source_port=c["sport"], max_size=c["maxsize"], one_rr_per_rrset=c["onerr"], ignore_trailing=c["itrail"])
            outcome = None
            with Transports(handler):
                try:
                    if mode == "sync":
                        r = ns.query(**args)
                    else:
                        r = get_loop().run_until_complete(ns.async_query(backend=VBackend(VClock(TICK)), **args))
                    outcome = ["return", "tc" if r.flags & dns.flags.TC else "ok"]
                except dns.message.Truncated:
                    outcome = ["raise", "Truncated"]
                except dns.exception.Timeout:
                    outcome = ["raise", "exc:Timeout"]
                except dns.exception.FormError:
                    outcome = ["raise", "exc:FormError"]
                except OSError:
                    outcome = ["raise", "exc:OSError"]
            if len(seen) != 1 or seen[0]["is_async"] != (mode == "async") or not seen[0]["same_request"]:
                ev.append({"op": "nscall-odd", "mode": mode, "calls": len(seen)})
            else:
                ev.append({"op": "nscall", "mode": mode, "args": seen[0]["args"], "outcome": outcome})
    except BaseException as ex:  # noqa
        ev.append({"op": "crash", "exc": type(ex).__name__, "msg": str(ex)[:200]})
    return {"tid": tid, "call": c, "reply": case["reply"], "ev": ev}
