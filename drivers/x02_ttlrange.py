"""X02 driver: dns.ttl.from_text / dns.ttl.make, dns.grange.from_text and dns.serial.Serial on
one universe element each.  Only drives and projects; Trace_TtlRange judges.

A text travels as a list of character codes; a number read from text comes back as the
character codes of str(number) (TLC integers are 32 bit); a 32-bit serial as two 16-bit
limbs [hi, lo].  Comparison results: 1 true, 0 false, 2 raised, 3 not a bool.  Addition
results: the new value, -1 ValueError, -2 another error, -3 not a Serial of that width."""
import dns.exception
import dns.grange
import dns.rdataset
import dns.serial
import dns.tokenizer
import dns.ttl
import dns.zone
import dns.zonefile


def codes(s):
    return [ord(c) for c in s]


def text_of(cs):
    return "".join(chr(c) for c in cs)


def ev_ttl(cs, op="ttl"):
    fn = dns.ttl.from_text if op == "ttl" else dns.ttl.make
    try:
        v = fn(text_of(cs))
        res = ["ok", codes(str(v)) if type(v) is int else codes("type " + type(v).__name__)]
    except Exception as ex:  # the outcome is data, not a verdict
        res = ["err", type(ex).__name__, isinstance(ex, dns.ttl.BadTTL), isinstance(ex, dns.exception.DNSException)]
    return {"op": op, "text": cs, "res": res}


def ev_range(cs):
    try:
        v = dns.grange.from_text(text_of(cs))
        if type(v) is tuple and len(v) == 3 and all(type(x) is int for x in v):
            res = ["ok", [codes(str(x)) for x in v]]
        else:
            res = ["ok", [codes("shape " + repr(v)[:40])] * 3]
    except Exception as ex:
        res = ["err", type(ex).__name__, isinstance(ex, dns.exception.SyntaxError), isinstance(ex, dns.exception.DNSException)]
    return {"op": "range", "text": cs, "res": res}


def _zone_ttl(text, rdtype):
    z = dns.zone.from_text(text, origin="example.", check_origin=False)
    return z.find_rdataset("@", rdtype).ttl


def _update_ttl(t):
    rds = dns.rdataset.Rdataset(1, 1)
    rds.update_ttl(t)
    return rds.ttl


# the other documented entry points that take a TTL in text form
VIAS = [
    ("tok", lambda t: dns.tokenizer.Tokenizer(t).get_ttl()),
    ("dollar", lambda t: _zone_ttl("$TTL %s\n@ IN NS ns.\n" % t, "NS")),
    ("field", lambda t: _zone_ttl("@ %s IN NS ns.\n" % t, "NS")),
    ("forced", lambda t: dns.zonefile.read_rrsets("10.0.0.1\n", name="a", ttl=t, rdtype="A")[0].ttl),
    ("default", lambda t: dns.zonefile.read_rrsets("a A 10.0.0.1\n", default_ttl=t)[0].ttl),
    ("update_ttl", _update_ttl),
]


def ev_via(cs):
    t = text_of(cs)
    res = []
    for _, fn in VIAS:
        try:
            v = fn(t)
            res.append(["ok", codes(str(v)) if type(v) is int else codes("type " + type(v).__name__)])
        except Exception as ex:
            res.append(["err", type(ex).__name__, isinstance(ex, dns.exception.DNSException)])
    return {"op": "via", "text": cs, "vias": [n for n, _ in VIAS], "res": res}


def _b(f):
    try:
        v = f()
    except Exception:
        return 2
    return 1 if v is True else 0 if v is False else 3


def cmp6(x, y):
    return [_b(lambda: x < y), _b(lambda: x <= y), _b(lambda: x > y), _b(lambda: x >= y), _b(lambda: x == y), _b(lambda: x != y)]


def _iadd(x, n):
    x += n
    return x


def _isub(x, n):
    x -= n
    return x


ARITH = {"add": lambda x, n: x + n, "sub": lambda x, n: x - n, "iadd": _iadd, "isub": _isub}


def arith(kind, a, n, bits):
    """-> (code, value): code 0 ok, 1 ValueError, 2 another error, 3 not a Serial of that width"""
    x = dns.serial.Serial(a, bits)
    try:
        v = ARITH[kind](x, n)
    except ValueError:
        return 1, 0
    except Exception:
        return 2, 0
    if type(v) is not dns.serial.Serial or v.bits != bits or type(v.value) is not int or not 0 <= v.value < 2**bits:
        return 3, 0
    if kind in ("iadd", "isub") and v is not x:
        return 3, 0
    return 0, v.value


def ev_srow(bits, a):
    """every comparison and every addition of the width with first operand a"""
    S = dns.serial.Serial
    size = 2**bits
    evs = []
    for operand in ("serial", "int"):
        evs.append({"op": "cmp", "bits": bits, "a": a, "operand": operand, "lo": 0, "full": True,
                    "res": [cmp6(S(a, bits), S(b, bits) if operand == "serial" else b) for b in range(size)]})
    for kind in ("add", "iadd", "sub", "isub"):
        for operand in ("int", "serial"):
            lo, hi = (-size, size) if operand == "int" else (0, size - 1)
            res = []
            for n in range(lo, hi + 1):
                code, v = arith(kind, a, n if operand == "int" else S(n, bits), bits)
                res.append(v if code == 0 else -code)
            evs.append({"op": "add", "kind": kind, "operand": operand, "bits": bits, "a": a, "lo": lo, "full": True, "res": res})
    return evs


def val32(x):
    return x[0] * 65536 + x[1]


def ev_cmp32(a, b):
    return [{"op": "cmp32", "a": a, "b": b, "res": cmp6(dns.serial.Serial(val32(a)), dns.serial.Serial(val32(b), 32))}]


def ev_add32(a, n):
    evs = []
    for kind in ("add", "iadd", "sub", "isub"):
        for operand, neg in (("int", False), ("int", True), ("serial", False)):
            amount = dns.serial.Serial(val32(n)) if operand == "serial" else (-val32(n) if neg else val32(n))
            code, v = arith(kind, val32(a), amount, 32)
            evs.append({"op": "add32", "kind": kind, "operand": operand, "neg": neg, "a": a, "n": n,
                        "res": [code, v // 65536, v % 65536]})
    return evs


def events(kind, item):
    if kind == "ttl":
        return [ev_ttl(item)]
    if kind == "make":
        return [ev_ttl(item, "make")]
    if kind == "range":
        return [ev_range(item)]
    if kind == "via":
        return [ev_via(item)]
    if kind == "srow":
        return ev_srow(item[0], item[1])
    if kind == "s32cmp":
        return ev_cmp32(item[0], item[1])
    if kind == "s32add":
        return ev_add32(item[0], item[1])
    raise ValueError(kind)


def run_job(job):
    """job = (tid, kind, [items]) -> one trace holding the events of all items"""
    tid, kind, items = job
    ev = []
    for it in items:
        try:
            ev += events(kind, it)
        except BaseException as ex:  # a driver crash is an event nobody matches
            ev.append({"op": "driver-crash", "kind": kind, "exc": type(ex).__name__, "msg": str(ex)[:200]})
    return {"tid": tid, "kind": kind, "ev": ev}
