"""X03a driver: replays a call history on a real dns.namedict.NameDict and records one
event per call (arguments, outcome, result, projection of the content and of the
max_depth / max_depth_items attributes).  Drives and projects only - no verdicts."""
import signal

import dns.name
import dns.namedict


def mkname(labels, sp="l"):
    labs = [x.upper() if sp == "u" else x for x in labels]
    return dns.name.Name([x.encode("ascii") for x in labs])


def proj_name(n):
    if not isinstance(n, dns.name.Name):
        raise TypeError("key is not a Name: %r" % (n,))
    return [lab.decode("ascii").lower() for lab in n.labels]


def state(d):
    # a key that is not a Name (only possible if the class accepted one) is projected as a marker
    items = sorted(([proj_name(k) if isinstance(k, dns.name.Name) else ["?" + type(k).__name__], d[k]] for k in d),
                   key=lambda kv: kv[0])
    return {"st": items, "n": len(d), "md": int(d.max_depth), "mi": int(d.max_depth_items)}


def match(d, labels, sp):
    try:
        r = d.get_deepest_match(mkname(labels, sp))
    except KeyError:
        return "err", "KeyError", ["err", [], 0]
    except Exception as e:  # any other refusal: still a miss for the model, class recorded
        return "err", type(e).__name__, ["err", [], 0]
    k, v = r
    return "ok", "", ["hit", proj_name(k), v]


def replay(hist, probes, tid):
    ev = []
    init = hist[0]
    src = {mkname(k): v for k, v in init["m"]}
    e = {"op": "init", "m": sorted(([k, v] for k, v in init["m"]), key=lambda kv: kv[0])}
    try:
        # three ways of constructing (free choice of the driver, rotating with the content size)
        how = len(src) % 3
        if how == 0:
            d = dns.namedict.NameDict(src)
        elif how == 1:
            d = dns.namedict.NameDict(list(src.items()))
        else:
            d = dns.namedict.NameDict()
            d.update(src)
        e["res"] = "ok"
    except Exception as x:
        d = dns.namedict.NameDict()
        e["res"] = "err"
        e["exc"] = type(x).__name__
    e.update(state(d))
    ev.append(e)
    for h in hist[1:]:
        op = h["op"]
        e = {"op": op, "k": h["k"], "sp": h["sp"], "v": h["v"], "res": "ok", "exc": "", "val": ["-"]}
        try:
            if op == "set":
                d[mkname(h["k"], h["sp"])] = h["v"]
            elif op == "setbad":
                d[".".join(h["k"]) or "a."] = h["v"]
            elif op == "del":
                del d[mkname(h["k"], h["sp"])]
            elif op == "pop":
                e["val"] = ["val", d.pop(mkname(h["k"], h["sp"]), h["v"])]
            elif op == "setdefault":
                e["val"] = ["val", d.setdefault(mkname(h["k"], h["sp"]), h["v"])]
            elif op == "clear":
                d.clear()
            elif op == "get":
                e["val"] = ["val", d[mkname(h["k"], h["sp"])]]
            elif op == "has":
                k = mkname(h["k"], h["sp"])
                a, b = (k in d), d.has_key(k)
                e["val"] = ["bool", a] if a == b else ["bool2", a, b]
            elif op == "match":
                e["res"], e["exc"], e["val"] = match(d, h["k"], h["sp"])
            else:
                raise RuntimeError("unknown op " + op)
        except (KeyError, ValueError, TypeError) as x:
            e["res"] = "err"
            e["exc"] = type(x).__name__
            e["val"] = ["-"]
        e.update(state(d))
        ev.append(e)
    tab = []
    for q in probes:
        for sp in ("l", "u"):
            r = match(d, q, sp)
            tab.append([q] + r[2])
    e = {"op": "probe", "tab": tab}
    e.update(state(d))
    ev.append(e)
    return {"tid": tid, "ev": ev}


class Budget(BaseException):
    pass


def _budget(signum, frame):
    raise Budget("CPU budget of %ds exceeded" % CPU_BUDGET_S)


CPU_BUDGET_S = 5


def run_job(job):
    hist, probes, tid = job
    # CPU-time budget (not wall clock): a call that never returns becomes a driver-error event
    signal.signal(signal.SIGVTALRM, _budget)
    signal.setitimer(signal.ITIMER_VIRTUAL, CPU_BUDGET_S)
    try:
        r = replay(hist, probes, tid)
        signal.setitimer(signal.ITIMER_VIRTUAL, 0)
        return r
    except (Exception, Budget) as x:  # a driver failure is an event nobody matches
        signal.setitimer(signal.ITIMER_VIRTUAL, 0)
        return {"tid": tid, "ev": [{"op": "init", "m": [], "res": "ok", "st": [], "n": 0, "md": 0, "mi": 0},
                                   {"op": "driver-error", "exc": repr(x)}]}
